#!/usr/bin/env python3
"""Monadic mode of the Rust -> Lean translator: EFFECTFUL functions of the FAT engine and of the
block cache, translated whole into the model's `F` monad (Model/Dev.lean) and written to
`Sdmmc/Gen/FunsM.lean`.

Built on tools/translate.py (pure expressions) and tools/rustfront.py (syntax).  What is outside the
subset raises ShapeError (exit status 3 in extract.py, message names the function).

The conventions are documented in LEAN_HEADER_M below (copied into the generated file).
"""
import re
from rustfront import ShapeError, Items, parse_fn_body, parse_params, parse_type
from translate import (Full, V, Ctx, FnInfo, INT_W, lname, atom, conj, chain, pretty, has_return, has_node,
                       assigned_names, declared_names, free_names, pat_names, LOG_MACROS, FILES, _balanced)

# --------------------------------------------------------------------------------------
# How the Rust state is laid out in the model's state (Model/Dev.lean: `FS`)
# --------------------------------------------------------------------------------------

# `self` of these structs is a record held in the monad's state.
RECORDS = {
    "FatVolume": dict(
        var="v", get="F.getVol", lean_type="FatVolume",
        fields={"lba_start": "lbaStart", "num_blocks": "numBlocks", "blocks_per_cluster": "blocksPerCluster",
                "first_data_block": "firstDataBlock", "fat_start": "fatStart", "second_fat_start": "secondFatStart",
                "free_clusters_count": "freeClustersCount", "next_free_cluster": "nextFreeCluster",
                "cluster_count": "clusterCount"},
        # `match &self.fat_specific_info { Fat16(i) => .., Fat32(i) => .. }` is a match on `v.fatType`;
        # the payload fields live in the same flat record.
        enum_fields={"fat_specific_info": dict(
            tag="fatType", enum="FatSpecificInfo",
            variants={"Fat16": ("FatType.fat16", {"root_entries_count": "rootEntriesCount",
                                                  "first_root_dir_block": "firstRootDirBlock"}),
                      "Fat32": ("FatType.fat32", {"info_location": "infoLocation",
                                                  "first_root_dir_cluster": "firstRootDirCluster"})})},
        setter=lambda lean_field, val: f"(F.modifyVol fun v => {{ v with {lean_field} := {val} }})"),
    "BlockCache": dict(
        var="c", get="getCache", lean_type="Cache",
        fields={"block_idx": "tag"},
        enum_fields={},
        setter=lambda lean_field, val: f"(setTag {val})"),
}

# the cache block: `self.block[0]` / `self.block` inside BlockCache, the `&Block` / `&mut Block`
# handed out by `block_cache.read / read_mut / blank_mut` elsewhere.
CACHE_PARAM_TYPE = "BlockCache"

# methods of the block cache as seen from the FAT engine: Rust name -> (Lean primitive, arity, returns a block ref, fallible)
CACHE_CALLS = {
    "read": ("cacheRead", 1, True, True),
    "read_mut": ("cacheRead", 1, True, True),
    "write_back": ("writeBack", 0, False, True),
    "write_back_with_duplicate": ("writeBackWithDuplicate", 1, False, True),
    "blank_mut": ("blankMut", 1, True, False),
}

# the block device as seen from the block cache
DEVICE_CALLS = {"read": "devRead", "write": "devWrite"}


class MInfo:
    def __init__(self, name):
        self.name = name
        self.params = []        # [(lean, type)]
        self.ret = None         # Rust success type
        self.body = None
        self.aux = []           # [(header text, (pattern, body text), completion rank)] loop definitions
        self.aux_done = []
        self.fuel = False
        self.doc = ""
        self.pure = False       # a pure function of the record (no monad)
        self.modifies = False   # may assign fields of self
        self.notes = []         # arithmetic side conditions that are not enforced
        self.fallible = True    # returns a Result
        self.outparams = []     # [(rust name, type)]
        self.outbufs = []
        self.blockref = False   # the Ok value is a reference to the cache block


class MCtx(Ctx):
    def __init__(self, what, impl):
        super().__init__(what, impl)
        self.record = None          # RECORDS entry when `self` is a state record
        self.loop_wrap = False      # inside a loop that can end the function: results are `Except.error ..`
        self.outparams = []         # [(rust name, lean name)] `&mut` parameters of Copy tuple type: returned on every exit
        self.outbufs = []           # [(rust name, lean name)] `&mut [u8]` parameters: returned with `Ok(..)`
        self.loop = None            # dict(brk=fn(env)->text, cont=fn(env)->text) inside a loop body
        self.info = None
        self.cache_param = None     # name of the `&mut BlockCache<D>` parameter
        self.fn_params = []         # [(rust name, lean name, type)] of the function, for loop definitions
        self.loop_depth = 0


def _ret_raw(ctx, t):
    return f"(pure (Except.error {t}))" if ctx.loop_wrap else f"(pure {t})"


def _okval(ctx, t):
    if ctx.outbufs:
        t = "(" + ", ".join([t] + [ln for _n, ln in ctx.outbufs]) + ")"
    if ctx.outparams:
        ps = ", ".join(ln for _n, ln in ctx.outparams)
        t = f"(({ps}), Res.ok {t})" if len(ctx.outparams) > 1 else f"({ps}, Res.ok {t})"
    return t


MCtx.ret_raw = _ret_raw
MCtx.ret_ok = lambda ctx, t: _ret_raw(ctx, _okval(ctx, t))


def simple(s):
    return bool(re.match(r"^[A-Za-z0-9_.']+$", s))


def par(s):
    return s if simple(s) or (s.startswith("(") and s.endswith(")") and _balanced(s[1:-1])) else f"({s})"


class MTrans(Full):
    """translate.Full plus: self as a state record, monadic statements, fuel loops."""

    mon = "F"
    cache_blk = "cacheBlk"

    def cache_modify(self, fn):
        return f"(cacheModify {fn})"

    def __init__(self, items):
        super().__init__(items)
        self.mdone = {}
        self.morder = []
        self.m_in_progress = set()
        self.div_ok = set()     # ids of division nodes whose zero check has been emitted
        self.div_keep = []

    def tr_bin(self, e, env, ctx):
        if e[1] in ("/", "%") and isinstance(ctx, MCtx) and id(e) not in self.div_ok:
            b = self.tr(e[3], env, ctx)
            if b.const is None:
                raise ShapeError(f"{ctx.what}: a division by a non-constant is translated only as `let x = a {e[1]} b;` "
                                 "with plain operands (the place of its panic must be evident)")
        return super().tr_bin(e, env, ctx)

    # ------------------------------------------------------------------ record-mode self (pure parts)
    def rec_field(self, name, ctx):
        rec = ctx.record
        sname = ctx.self_mode[1]
        if name in rec["fields"]:
            for fname, fty, isref in self.struct_fields(sname, ctx.what):
                if fname == name:
                    ty = self.conv_type(fty, f"{ctx.what}: {sname}.{name}", sname)
                    return V(f"{rec['var']}.{rec['fields'][name]}", ty)
        raise ShapeError(f"{ctx.what}: field `self.{name}` has no place in the model's state (outside the subset)")

    def tr_field(self, e, env, ctx):
        _, base, name = e
        if base == ("path", ["self"]) and getattr(ctx, "record", None) is not None:
            return self.rec_field(name, ctx)
        if base[0] == "path" and len(base[1]) == 1 and base[1][0] in env and env[base[1][0]][0] == "payload":
            _, fmap = env[base[1][0]][1], env[base[1][0]][2]
            if name not in fmap:
                raise ShapeError(f"{ctx.what}: payload field `{name}` has no place in the model's state")
            lean, ty = fmap[name]
            return V(lean, ty)
        return super().tr_field(e, env, ctx)

    def tr_path(self, e, env, ctx):
        segs = e[1]
        if len(segs) == 1 and segs[0] in env:
            b = env[segs[0]]
            if b[0] == "cacheblk":
                return V(b[1], ("bytes", 512))
            if b[0] == "selfopt":
                return V(b[2], b[3])
            if b[0] == "res":
                raise ShapeError(f"{ctx.what}: the Result `{segs[0]}` is used as a plain value (outside the subset)")
            if b[0] == "payload":
                raise ShapeError(f"{ctx.what}: the enum payload `{segs[0]}` is used as a whole (outside the subset)")
        return super().tr_path(e, env, ctx)

    def enum_field_of(self, scrut, ctx):
        """`self.fat_specific_info` (possibly behind `&`) in record mode -> its RECORDS entry"""
        while scrut[0] in ("ref", "deref"):
            scrut = scrut[1]
        if getattr(ctx, "record", None) is not None and scrut[0] == "field" and scrut[1] == ("path", ["self"]) \
                and scrut[2] in ctx.record["enum_fields"]:
            return ctx.record["enum_fields"][scrut[2]]
        return None

    def enum_arms(self, ef, arms, env, ctx):
        """arms of a match on a state enum field -> [(lean ctor, env for the arm, body)] covering every variant"""
        out, seen = [], set()
        rec = ctx.record
        sname = ef["enum"]
        variants = dict(self.items.enums[sname])
        for pat, guard, body in arms:
            if guard is not None:
                raise ShapeError(f"{ctx.what}: guard on a match over {sname} is outside the subset")
            if pat[0] == "pwild":
                for vn in ef["variants"]:
                    if vn not in seen:
                        out.append((ef["variants"][vn][0], dict(env), body))
                        seen.add(vn)
                continue
            if pat[0] not in ("ptuple", "ppath") or pat[1][-1] not in ef["variants"]:
                raise ShapeError(f"{ctx.what}: pattern outside the subset in a match over {sname}")
            vn = pat[1][-1]
            if vn in seen:
                raise ShapeError(f"{ctx.what}: variant {vn} matched twice")
            seen.add(vn)
            ctor, fmap = ef["variants"][vn]
            env2 = dict(env)
            subs = pat[2] if pat[0] == "ptuple" else []
            if len(subs) > 1:
                raise ShapeError(f"{ctx.what}: {sname}::{vn} has one payload")
            for sp in subs:
                while sp[0] == "pref":
                    sp = sp[1]
                if sp[0] == "pbind":
                    payload_struct = parse_type(variants[vn][0], ctx.what, self.items)[1]
                    tys = {}
                    for fname, fty, isref in self.struct_fields(payload_struct, ctx.what):
                        if fname in fmap:
                            tys[fname] = (f"{rec['var']}.{fmap[fname]}", self.conv_type(fty, ctx.what, payload_struct))
                    env2[sp[1]] = ("payload", vn, tys)
                elif sp[0] != "pwild":
                    raise ShapeError(f"{ctx.what}: nested pattern in {sname}::{vn}")
            out.append((ctor, env2, body))
        if set(ef["variants"]) - seen:
            raise ShapeError(f"{ctx.what}: match over {sname} does not cover {sorted(set(ef['variants']) - seen)}")
        return out

    def tr_match(self, e, env, ctx, leaf=None):
        ef = self.enum_field_of(e[1], ctx)
        if ef is None:
            return super().tr_match(e, env, ctx, leaf)
        leaf = leaf or self.tr
        pieces, rty = [], None
        for ctor, env2, body in self.enum_arms(ef, e[2], env, ctx):
            bv = leaf(body, env2, ctx)
            rty = bv.ty if rty is None else self.unify(rty, bv.ty, ctx.what)
            pieces.append(f"| {ctor} => {self.value(bv, ctx)}")
        return V(f"(match {ctx.record['var']}.{ef['tag']} with " + " ".join(pieces) + ")", rty)

    def tr_mcall(self, e, env, ctx):
        _, recv, name, args = e
        if recv[0] == "path" and len(recv[1]) == 1 and recv[1][0] in env and env[recv[1][0]][0] == "res" \
                and name in ("is_err", "is_ok") and not args:
            r = env[recv[1][0]][1]
            return V(f"(isOk {r} = {'true' if name == 'is_ok' else 'false'})", ("bool",), None, None, True)
        if recv == ("path", ["self"]) and getattr(ctx, "record", None) is not None:
            key = (ctx.self_mode[1], name)
            if key not in self.items.fns:
                raise ShapeError(f"{ctx.what}: method {key[0]}::{name} not found")
            if self.is_monadic(key):
                raise ShapeError(f"{ctx.what}: the effectful call self.{name}(..) is used inside a pure expression "
                                 f"(outside the subset)")
            info = self.translate_m(key)
            vs = [self.tr(a, env, ctx) for a in args]
            for v, (pn, pt) in zip(vs, info.params[1:]):
                self.unify(v.ty, pt, ctx.what)
            app = f"({info.name} {ctx.record['var']}" + "".join(" " + self.arg(v, ctx) for v in vs) + ")"
            return V(app, info.ret)
        return super().tr_mcall(e, env, ctx)

    # ------------------------------------------------------------------ classification of functions
    def is_monadic(self, key):
        decl = self.items.fns[key]
        if decl.impl == CACHE_PARAM_TYPE:
            return True
        _, params = parse_params(decl, self.items)
        for pn, pty in params:
            t = pty
            while t[0] == "tref":
                t = t[1]
            if t[0] == "ty" and t[1] == CACHE_PARAM_TYPE:
                return True
        return False


def stmts_of(b):
    if b is None:
        return []
    if b[0] == "block":
        return list(b[1]) + ([("expr", b[2])] if b[2] is not None else [])
    return [("expr", b)]


def is_err_ctor(e):
    return e[0] == "call" and e[1] == ("path", ["Err"]) and len(e[2]) == 1


def returns_value(node):
    """a `return` of something other than `Err(..)` somewhere inside (closures excluded)"""
    if isinstance(node, tuple):
        if node and node[0] == "return":
            return node[1] is None or not is_err_ctor(node[1])
        if node and node[0] == "closure":
            return False
        return any(returns_value(x) for x in node)
    if isinstance(node, list):
        return any(returns_value(x) for x in node)
    return False


class MStmts:
    # ------------------------------------------------------------------ small helpers
    def bind(self, m, var, rest):
        return f"({m} >>= fun {var} => {rest})"

    def ret_err(self, err, ctx):
        if ctx.outparams:
            ps = ", ".join(ln for _n, ln in ctx.outparams)
            return ctx.ret_raw(f"({ps}, Res.err {err})")
        return f"({self.mon}.fail {err})"

    def mtry(self, m, var, rest, ctx):
        """`let var = m?; rest`"""
        if not ctx.outparams:
            return self.bind(m, var, rest)
        r, e, p = self.tmp(), self.tmp(), self.tmp()
        return self.bind(f"({self.mon}.attempt {m})", r,
                         f"(match {r} with | Res.ok {var} => {rest} | Res.err {e} => {self.ret_err(e, ctx)} "
                         f"| Res.panic {p} => {self.mon}.panic {p} | Res.diverged => {self.mon}.diverge)")

    def refetch(self, ctx, rest):
        if ctx.record is None:
            return rest
        return self.bind(ctx.record["get"], ctx.record["var"], rest)

    def mentions_self(self, node):
        names = set()
        free_names(node, names)
        return "self" in names

    def err_of(self, a, env, ctx):
        """the payload of `Err(..)` as a Lean `Err`"""
        if a[0] == "path" and len(a[1]) == 1 and a[1][0] in env and env[a[1][0]][0] == "errval":
            return env[a[1][0]][1]
        if a[0] == "path" and len(a[1]) >= 2 and a[1][-2] == "Error":
            return f"Err.{a[1][-1]}"
        if a[0] == "call" and a[1][0] == "path" and len(a[1][1]) >= 2 and a[1][1][-2] == "Error" and len(a[2]) == 1:
            arg = a[2][0]
            if arg[0] == "str":
                return f'(Err.{a[1][1][-1]} "{arg[1]}")'
            if a[1][1][-1] == "DeviceError":
                return "Err.DeviceError"
            v = self.tr(arg, env, ctx)
            return f"(Err.{a[1][1][-1]} {self.arg(v, ctx)})"
        raise ShapeError(f"{ctx.what}: this error value is outside the subset")

    def callee_modifies(self, key):
        return self.translate_m(key).modifies

    def modifies_self(self, node, env, ctx):
        """may the statements assign fields of the state record?"""
        if ctx.record is None:
            return False
        found = [False]

        def walk(n):
            if found[0]:
                return
            if isinstance(n, tuple):
                if n and n[0] == "assign":
                    lhs = n[2]
                    while lhs[0] in ("deref", "index"):
                        lhs = lhs[1]
                    if lhs[0] == "field" and lhs[1] == ("path", ["self"]):
                        found[0] = True
                    if lhs[0] == "path" and len(lhs[1]) == 1 and lhs[1][0] not in ("self",):
                        # `*alias = ..` where alias was bound by `if let Some(ref mut alias) = self.f`
                        if n[2][0] == "deref":
                            found[0] = True
                if n and n[0] == "mcall" and n[1] == ("path", ["self"]):
                    key = (ctx.self_mode[1], n[2])
                    if key in self.items.fns and self.is_monadic(key):
                        if key in self.m_in_progress or self.callee_modifies(key):
                            found[0] = True
                if n and n[0] == "mcall" and n[2] == "fill":
                    pass
                for x in n:
                    walk(x)
            elif isinstance(n, list):
                for x in n:
                    walk(x)
        walk(node)
        return found[0]

    def touches_block(self, node, env):
        names = set()
        assigned_names(node, names)

        def walk(n):
            if isinstance(n, tuple):
                if n and n[0] == "call" and n[1][0] == "path" and n[1][1][-1] in ("write_u16", "write_u32") and n[2]:
                    a = n[2][0]
                    while a[0] in ("ref", "index", "deref"):
                        a = a[1]
                    if a[0] == "path" and len(a[1]) == 1:
                        names.add(a[1][0])
                for x in n:
                    walk(x)
            elif isinstance(n, list):
                for x in n:
                    walk(x)
        walk(node)
        return [n for n in sorted(names) if n in env and env[n][0] == "cacheblk"]

    def reread_blocks(self, blocks, rest):
        for n in reversed(blocks):
            rest = self.bind(self.cache_blk, lname(n), rest)
        return rest

    # ------------------------------------------------------------------ classification of expressions
    def is_cache_recv(self, e, ctx):
        return ctx.cache_param is not None and e == ("path", [ctx.cache_param])

    def mclass(self, e, env, ctx):
        """('m', lean, ok type, blockref?) effectful and fallible | ('mi', lean, ok type, blockref?) effectful,
        infallible | ('res', lean, ok type) an outcome held in a variable | ('pure', None)"""
        if e[0] == "path" and len(e[1]) == 1 and e[1][0] in env and env[e[1][0]][0] == "res":
            b = env[e[1][0]]
            return ("res", b[1], b[2])
        if e[0] == "mcall":
            _, recv, name, args = e
            if self.is_cache_recv(recv, ctx) and name in CACHE_CALLS:
                prim, arity, blockref, fallible = CACHE_CALLS[name]
                if len(args) != arity:
                    raise ShapeError(f"{ctx.what}: {name} takes {arity} argument(s)")
                vs = [self.tr(a, env, ctx) for a in args]
                for v in vs:
                    if self.res(v.ty)[0] not in ("nt", "int"):
                        raise ShapeError(f"{ctx.what}: block index expected in {name}(..)")
                lean = prim + "".join(" " + self.arg(v, ctx) for v in vs)
                return ("m" if fallible else "mi", f"({lean})" if vs else lean, ("unit",), blockref)
            if name == "map_err" and len(args) == 1:
                inner = self.mclass(recv, env, ctx)
                if inner[0] == "m":
                    if args[0] != ("path", ["Error", "DeviceError"]):
                        raise ShapeError(f"{ctx.what}: only `.map_err(Error::DeviceError)` is in the subset on an "
                                         f"effectful call")
                    return inner
            if name == "and_then" and len(args) == 1 and args[0][0] == "closure":
                inner = self.mclass(recv, env, ctx)
                if inner[0] == "m":
                    c = args[0]
                    if c[1] != ["_"]:
                        raise ShapeError(f"{ctx.what}: and_then closure on an effectful call must ignore its argument")
                    second = self.mclass(c[2], env, ctx)
                    if second[0] != "m":
                        raise ShapeError(f"{ctx.what}: and_then closure must be an effectful, fallible call")
                    return ("m", f"({inner[1]} >>= fun _ => {second[1]})", second[2], second[3])
            # the block device, from inside the block cache
            if recv == ("field", ("path", ["self"]), "block_device") and ctx.impl == CACHE_PARAM_TYPE \
                    and name in DEVICE_CALLS and len(args) == 2:
                buf = args[0]
                while buf[0] == "ref":
                    buf = buf[1]
                if buf != ("field", ("path", ["self"]), "block"):
                    raise ShapeError(f"{ctx.what}: the device is only called with the cache's own block")
                v = self.tr(args[1], env, ctx)
                return ("m", f"({DEVICE_CALLS[name]} {self.arg(v, ctx)})", ("unit",), False)
            if recv == ("path", ["self"]) and ctx.record is not None:
                key = (ctx.self_mode[1], name)
                if key in self.items.fns and self.is_monadic(key):
                    info = self.translate_m(key)
                    decl = self.items.fns[key]
                    _, cparams = parse_params(decl, self.items)
                    actual = []
                    it = iter(info.params[1:] if info.fuel else info.params)
                    for (pn, pty), a in zip(cparams, args):
                        t = pty
                        while t[0] == "tref":
                            t = t[1]
                        if t[0] == "ty" and t[1] == CACHE_PARAM_TYPE:
                            if not self.is_cache_recv(a, ctx):
                                raise ShapeError(f"{ctx.what}: the block cache must be passed on as it is")
                            continue
                        sp = self.special_arg(pn, pty, a, env, ctx)
                        if sp is not None:
                            if sp != "":        # "" = the callee has no Lean parameter for it
                                next(it)
                                actual.append(sp)
                            continue
                        v = self.tr(a, env, ctx)
                        lp, lt = next(it)
                        self.unify(v.ty, lt, ctx.what)
                        actual.append(self.arg(v, ctx))
                    if len(args) != len(cparams):
                        raise ShapeError(f"{ctx.what}: wrong number of arguments for {name}")
                    if info.fuel:
                        ctx.info.fuel = True
                        actual = ["fuel"] + actual
                    lean = info.name + "".join(" " + a for a in actual)
                    kind = "m" if info.fallible else "mi"
                    return (kind, f"({lean})" if actual else lean, info.ret, info.blockref)
        return ("pure", None)

    # ------------------------------------------------------------------ generic case analysis (Option / outcome)
    def resolve(self, arms, case, env, ctx):
        """first arm that applies to `case`; returns a tree ('body', env, ast) | ('if', cond text, tree, tree)
        case = ('some', lean, ty) | ('none',) | ('ok', lean, ty) | ('err', variant or None, lean or None)"""
        for idx, (pat, guard, body) in enumerate(arms):
            env2 = self.pat_applies(pat, case, env, ctx)
            if env2 is None:
                continue
            if guard is None:
                return ("body", env2, body)
            g = self.tr(guard, env2, ctx)
            return ("if", self.as_prop(g, ctx), ("body", env2, body), self.resolve(arms[idx + 1:], case, env, ctx))
        raise ShapeError(f"{ctx.what}: no match arm applies to the case {case[0]}")

    def pat_applies(self, pat, case, env, ctx):
        while pat[0] == "pref":
            pat = pat[1]
        if pat[0] == "pwild":
            return dict(env)
        if pat[0] == "por":
            for q in pat[1]:
                r = self.pat_applies(q, case, env, ctx)
                if r is not None:
                    return r
            return None
        if pat[0] == "ppath" and pat[1] == ["None"]:
            return dict(env) if case[0] == "none" else None
        if pat[0] == "ptuple" and pat[1] in (["Some"], ["Ok"]) and len(pat[2]) == 1:
            if case[0] != ("some" if pat[1] == ["Some"] else "ok"):
                return None
            p = pat[2][0]
            while p[0] == "pref":
                p = p[1]
            env2 = dict(env)
            if p[0] == "pbindref":
                origin = getattr(self, "_origin", None)
                if pat[1] != ["Some"] or origin is None:
                    raise ShapeError(f"{ctx.what}: `ref` binding on something that is not an Option field of self")
                if p[1] != case[1]:
                    raise ShapeError(f"{ctx.what}: the arms bind the payload under different names")
                env2[p[1]] = ("selfopt", origin, lname(p[1]), case[2], p[2])
                return env2
            if p[0] == "pbind":
                self.check_local(p[1], ctx)
                if p[1] != case[1]:
                    raise ShapeError(f"{ctx.what}: the arms bind the payload under different names "
                                     f"(`{p[1]}` / `{case[1]}`): outside the subset")
                if case[2] == ("blockref",):
                    env2[p[1]] = ("cacheblk", lname(p[1]))
                else:
                    env2[p[1]] = ("val", lname(p[1]), case[2])
                return env2
            if p[0] == "pwild" or (p[0] == "ptuple" and not p[1] and not p[2]):
                return env2
            if p[0] == "ptuple" and not p[1] and pat[1] == ["Some"] and self.res(case[2])[0] == "tuple" and \
                    len(self.res(case[2])[1]) == len(p[2]) and all(q[0] in ("pbind", "pwild") for q in p[2]):
                # `Some((a, b, ..))`: the components of the payload
                tys = self.res(case[2])[1]
                for idx, (q, qt) in enumerate(zip(p[2], tys)):
                    if q[0] == "pbind":
                        self.check_local(q[1], ctx)
                        proj = ".2" * idx + (".1" if idx < len(tys) - 1 else "")
                        env2[q[1]] = ("val", f"{lname(case[1])}{proj}", qt)
                return env2
            raise ShapeError(f"{ctx.what}: nested pattern inside {pat[1][0]}(..) is outside the subset")
        if pat[0] == "ptuple" and pat[1] == ["Err"] and len(pat[2]) == 1:
            if case[0] != "err":
                return None
            p = pat[2][0]
            if p[0] == "pwild":
                return dict(env)
            if p[0] == "pbind":
                env2 = dict(env)
                env2[p[1]] = ("errval", case[2] if case[1] is None else f"Err.{case[1]}")
                return env2
            if p[0] in ("ppath", "ptuple") and len(p[1]) >= 2 and p[1][-2] == "Error":
                return dict(env) if case[1] == p[1][-1] else None
            raise ShapeError(f"{ctx.what}: error pattern outside the subset")
        if pat[0] == "pbind" and case[0] in ("ok", "err"):
            # `x => ..` as the last arm of a match on an outcome: `x` is the outcome itself
            self.check_local(pat[1], ctx)
            env2 = dict(env)
            if case[0] == "ok":
                if case[2] == ("blockref",):
                    raise ShapeError(f"{ctx.what}: a catch-all binding of a block reference is outside the subset")
                val = "(Res.ok ())" if self.res(case[2]) == ("unit",) else f"(Res.ok {lname(case[1])})"
                env2[pat[1]] = ("res", val, case[2])
            else:
                val = f"(Res.err Err.{case[1]})" if case[1] is not None else f"(Res.err {case[2]})"
                env2[pat[1]] = ("res", val, getattr(self, "_okty", None) or self.fresh_any())
            return env2
        if pat[0] == "pbind":
            raise ShapeError(f"{ctx.what}: a catch-all binding arm is outside the subset here")
        raise ShapeError(f"{ctx.what}: pattern outside the subset")

    def payload_name(self, arms, ctor):
        for pat, _g, _b in arms:
            while pat[0] == "pref":
                pat = pat[1]
            if pat[0] == "ptuple" and pat[1] == [ctor] and len(pat[2]) == 1:
                p = pat[2][0]
                while p[0] == "pref":
                    p = p[1]
                if p[0] in ("pbind", "pbindref"):
                    return p[1]
        return None

    def err_variants(self, arms):
        out = []
        for pat, _g, _b in arms:
            if pat[0] == "ptuple" and pat[1] == ["Err"] and len(pat[2]) == 1:
                p = pat[2][0]
                if p[0] in ("ppath", "ptuple") and len(p[1]) >= 2 and p[1][-2] == "Error" and p[1][-1] not in out:
                    out.append(p[1][-1])
        return out

    def render_tree(self, tree, leaf):
        if tree[0] == "body":
            return leaf(tree[2], tree[1])
        return f"(if {tree[1]} then {self.render_tree(tree[2], leaf)} else {self.render_tree(tree[3], leaf)})"

    def option_cases(self, sv, arms, env, ctx, leaf):
        """match on a pure Option with `Some(x)` binders: leaf(ast, env) -> Lean text"""
        ety = self.res(sv.ty)[1]
        nm = self.payload_name(arms, "Some") or self.tmp()
        a = self.render_tree(self.resolve(arms, ("some", nm, ety), env, ctx), leaf)
        b = self.render_tree(self.resolve(arms, ("none",), env, ctx), leaf)
        return f"(match {sv.lean} with | some {lname(nm)} => {a} | none => {b})"

    def outcome_cases(self, rlean, okty, arms, env, ctx, leaf):
        """match on an attempted outcome `r : Res τ`"""
        nm = self.payload_name(arms, "Ok") or self.tmp()
        self._okty = okty
        if okty == ("blockref",):
            out = ["| Res.ok _ => " + self.bind(self.cache_blk, lname(nm),
                                               self.render_tree(self.resolve(arms, ("ok", nm, okty), env, ctx), leaf))]
        else:
            out = [f"| Res.ok {lname(nm) if self.res(okty) != ('unit',) or self.payload_name(arms, 'Ok') else '_'} => "
                   + self.render_tree(self.resolve(arms, ("ok", nm, okty), env, ctx), leaf)]
        for vn in self.err_variants(arms):
            out.append(f"| Res.err Err.{vn} => " + self.render_tree(self.resolve(arms, ("err", vn, None), env, ctx), leaf))
        ev = self.tmp()
        out.append(f"| Res.err {ev} => " + self.render_tree(self.resolve(arms, ("err", None, ev), env, ctx), leaf))
        pm = self.tmp()
        out.append(f"| Res.panic {pm} => {self.mon}.panic {pm}")
        out.append(f"| Res.diverged => {self.mon}.diverge")
        return f"(match {rlean} with " + " ".join(out) + ")"


class MFlow:
    # ------------------------------------------------------------------ effect analysis
    def is_effectful(self, node, env, ctx):
        """does translating `node` need the monad? (cache / device calls, effectful methods of self, `?`,
        return, break, continue, loops, panics, writes to self or to the cache block)"""
        found = [False]

        def walk(n):
            if found[0]:
                return
            if isinstance(n, tuple):
                if not n:
                    return
                k = n[0]
                if k in ("try", "return", "break", "continue", "loop", "while", "for", "assert"):
                    found[0] = True
                    return
                if k == "macro" and n[1] in ("panic", "unreachable", "todo", "unimplemented"):
                    found[0] = True
                    return
                if k == "mcall":
                    if self.is_cache_recv(n[1], ctx) or n[1] == ("field", ("path", ["self"]), "block_device"):
                        found[0] = True
                        return
                    if n[1] == ("path", ["self"]) and ctx.record is not None:
                        key = (ctx.self_mode[1], n[2])
                        if key in self.items.fns and self.is_monadic(key):
                            found[0] = True
                            return
                    if n[2] in ("expect", "unwrap"):
                        found[0] = True
                        return
                if k == "assign":
                    lhs = n[2]
                    if lhs[0] == "deref":
                        found[0] = True
                        return
                    while lhs[0] in ("index", "field"):
                        if lhs[0] == "field" and lhs[1] == ("path", ["self"]):
                            found[0] = True
                            return
                        lhs = lhs[1]
                if k == "path" and len(n[1]) == 1 and n[1][0] in env and env[n[1][0]][0] == "res":
                    found[0] = True
                    return
                if k == "field" and n[1] == ("path", ["self"]) and n[2] == "block":
                    found[0] = True
                    return
                for x in n:
                    walk(x)
            elif isinstance(n, list):
                for x in n:
                    walk(x)
        walk(node)
        if not found[0] and self.touches_block(node, env):
            return True
        return found[0]

    # ------------------------------------------------------------------ values, returns
    def is_block_ref(self, e, env, ctx):
        while e[0] in ("ref", "deref"):
            e = e[1]
        if e == ("index", ("field", ("path", ["self"]), "block"), ("lit", 0, None)) and ctx.impl == CACHE_PARAM_TYPE:
            return True
        return e[0] == "path" and len(e[1]) == 1 and e[1][0] in env and env[e[1][0]][0] == "cacheblk"

    def mvalue(self, e, env, ctx):
        if e == ("tuple", []):
            return "()"
        if self.is_block_ref(e, env, ctx):
            return "()"
        v = self.tr(e, env, ctx)
        return self.arg(v, ctx)

    def mreturn(self, e, env, ctx):
        """the function's result `e` (tail expression or operand of `return`) as a computation"""
        if e is None:
            return ctx.ret_ok("()")
        k = e[0]
        if k == "return":
            return self.mreturn(e[1], env, ctx)
        if k == "call" and e[1] == ("path", ["Ok"]) and len(e[2]) == 1:
            if not ctx.info.fallible:
                raise ShapeError(f"{ctx.what}: Ok(..) in a function that does not return a Result")
            return ctx.ret_ok(self.mvalue(e[2][0], env, ctx))
        if is_err_ctor(e):
            return self.ret_err(self.err_of(e[2][0], env, ctx), ctx)
        cls = self.mclass(e, env, ctx)
        if cls[0] in ("m", "mi"):
            if ctx.loop is None and not ctx.outparams and not ctx.outbufs:
                return cls[1]
            t = self.tmp()
            if cls[0] == "m":
                return self.mtry(cls[1], t, ctx.ret_ok("()" if cls[3] else t), ctx)
            return self.bind(cls[1], t, ctx.ret_ok("()" if cls[3] else t))
        if cls[0] == "res":
            if ctx.loop is None and not ctx.outparams and not ctx.outbufs:
                return f"({self.mon}.lift {cls[1]})"
            t = self.tmp()
            return self.mtry(f"({self.mon}.lift {cls[1]})", t, ctx.ret_ok(t), ctx)
        if k in ("if", "iflet", "match"):
            return self.branching(e, env, ctx, lambda b, envb: self.mreturn_block(b, envb, ctx))
        if k == "block":
            return self.mreturn_block(e, env, ctx)
        if k == "macro" and e[1] == "panic":
            return self.mpanic(e, ctx)
        if ctx.info.fallible:
            raise ShapeError(f"{ctx.what}: this result expression is outside the subset")
        return ctx.ret_ok(self.mvalue(e, env, ctx))

    def mreturn_block(self, b, env, ctx):
        if b is None:
            return ctx.ret_ok("()")
        if b[0] != "block":
            return self.mreturn(b, env, ctx)
        return self.mrun(list(b[1]), dict(env), ctx, lambda env2: self.mreturn(b[2], env2, ctx))

    def mpanic(self, e, ctx):
        """`panic!("text {..}", args)`: the outcome `panic` with the literal part of the message before the
        first `{` (formatted arguments are not modelled)"""
        toks = e[2]
        if not toks or toks[0].k != "str":
            raise ShapeError(f"{ctx.what}: panic! without a literal message")
        msg = toks[0].v.split("{")[0].rstrip()
        msg = msg.replace("\\", "\\\\").replace('"', '\\"')
        return f'({self.mon}.panic "{msg}")'

    # ------------------------------------------------------------------ branching constructs
    def branching(self, e, env, ctx, leaf):
        """Lean text of an if / if-let / match whose branches are rendered by leaf(body ast, env)"""
        k = e[0]
        empty = ("block", [], None)
        if k == "if":
            c = self.tr(e[1], env, ctx)
            p = self.as_prop(c, ctx)
            return f"(if {p} then {leaf(e[2], dict(env))} else {leaf(e[3] if e[3] is not None else empty, dict(env))})"
        if k == "iflet":
            _, pat, scrut, blk, els = e
            arms = [(pat, None, blk), (("pwild",), None, els if els is not None else empty)]
            return self.match_on(scrut, arms, env, ctx, leaf)
        if k == "match":
            return self.match_on(e[1], e[2], env, ctx, leaf)
        raise ShapeError(f"{ctx.what}: `{k}` is not a branching construct")

    def match_on(self, scrut, arms, env, ctx, leaf):
        ef = self.enum_field_of(scrut, ctx)
        if ef is not None:
            pieces = [f"| {ctor} => {leaf(body, env2)}" for ctor, env2, body in self.enum_arms(ef, arms, env, ctx)]
            return f"(match {ctx.record['var']}.{ef['tag']} with " + " ".join(pieces) + ")"
        cls = self.mclass(scrut, env, ctx)
        if cls[0] == "mo":
            return self.mo_call(cls, env, ctx, lambda r, env2: self.outcome_cases(r, cls[2], arms, env2, ctx, leaf))
        if cls[0] == "m":
            r = self.tmp()
            okty = ("blockref",) if cls[3] else cls[2]
            return self.bind(f"({self.mon}.attempt {cls[1]})", r, self.outcome_cases(r, okty, arms, env, ctx, leaf))
        if cls[0] == "res":
            return self.outcome_cases(cls[1], cls[2], arms, env, ctx, leaf)
        if cls[0] == "mi":
            raise ShapeError(f"{ctx.what}: match on an infallible effectful call is outside the subset")
        sv = self.tr(scrut, env, ctx)
        st = self.res(sv.ty)
        if st[0] == "option":
            origin = None
            s2 = scrut
            while s2[0] in ("ref", "deref"):
                s2 = s2[1]
            if s2[0] == "field" and s2[1] == ("path", ["self"]) and ctx.record is not None and s2[2] in ctx.record["fields"]:
                origin = s2[2]
            self._origin = origin
            try:
                return self.option_cases(sv, arms, env, ctx, leaf)
            finally:
                self._origin = None
        if st[0] == "bool":
            raise ShapeError(f"{ctx.what}: match on a bool is outside the subset")
        # integer / constant patterns: an if-chain
        pre = ""
        if not simple(sv.lean):
            tn = self.tmp()
            pre = f"let {tn} := {sv.lean}; "
            sv = V(tn, sv.ty)
        out = ""
        for idx, (pat, guard, body) in enumerate(arms):
            cond, binds = self.pat_cond(pat, sv, ctx)
            env2 = dict(env)
            bl = ""
            for n, bv in binds:
                self.check_local(n, ctx)
                env2[n] = ("val", lname(n), bv.ty)
                bl += f"let {lname(n)} := {bv.lean}; "
            if guard is not None:
                if binds:
                    raise ShapeError(f"{ctx.what}: match guard on an arm with bindings is outside the subset")
                g = self.tr(guard, env2, ctx)
                gp = self.as_prop(g, ctx)
                cond = gp if cond is None else f"({cond} ∧ {gp})"
            text = leaf(body, env2)
            if bl:
                text = f"({bl}{text})"
            if idx == len(arms) - 1:
                if guard is not None:
                    raise ShapeError(f"{ctx.what}: the last match arm has a guard")
                out += text
            else:
                if cond is None:
                    raise ShapeError(f"{ctx.what}: unreachable match arms after an irrefutable pattern")
                out += f"if {cond} then {text} else "
        return f"({pre}{out})"

    def mo_call(self, cls, env, ctx, use):
        """a call that hands back `&mut` arguments: bind the pair, rebind the caller's variables, then
        use(result text : Res .., env)"""
        p = self.tmp()
        vars_ = cls[4]
        binds = ""
        if len(vars_) == 1:
            binds = f"let {env[vars_[0]][1]} := {p}.1; "
        else:
            for i, v in enumerate(vars_):
                proj = ".1" + ".2" * i + (".1" if i < len(vars_) - 1 else "")
                binds += f"let {env[v][1]} := {p}{proj}; "
        return self.bind(cls[1], p, f"({binds}{use(p + '.2', env)})")

    # ------------------------------------------------------------------ statements
    def tuple_m(self, names, env):
        if not names:
            return "()"
        if len(names) == 1:
            return env[names[0]][1]
        return "(" + ", ".join(env[n][1] for n in names) + ")"

    def unpack_m(self, names, src, env, rest):
        if not names:
            return rest
        if len(names) == 1:
            return f"(let {env[names[0]][1]} := {src}; {rest})"
        binds = ""
        for i, n in enumerate(names):
            proj = ".2" * i + (".1" if i < len(names) - 1 else "")
            binds += f"let {env[n][1]} := {src}{proj}; "
        return f"({binds}{rest})"

    def mstate_vars(self, node, env, ctx):
        asg, decl = set(), set()
        assigned_names(node, asg)
        declared_names(node, decl)
        out = []
        for n in sorted(asg):
            if n in env and env[n][0] == "val":
                if n in decl:
                    raise ShapeError(f"{ctx.what}: `{n}` is both assigned and re-declared inside a branch / loop body")
                out.append(n)
        return out

    def mrun(self, stmts, env, ctx, k):
        if not stmts:
            return k(env)
        s, rest = stmts[0], stmts[1:]
        mod = self.modifies_self(s, env, ctx)
        tb = self.touches_block(s, env)

        def cont(env2):
            text = self.mrun(rest, env2, ctx, k)
            text = self.reread_blocks([n for n in tb if n in env2 and env2[n][0] == "cacheblk"], text)
            if mod:
                text = self.refetch(ctx, text)
            return text
        kind = s[0]
        if kind in ("loop", "while"):
            return self.st_mloop(s, env, ctx, cont)
        if kind == "for":
            return self.st_mfor(s, env, ctx, cont)
        if kind == "let":
            return self.st_mlet(s, env, ctx, cont)
        if kind != "expr":
            raise ShapeError(f"{ctx.what}: statement kind `{kind}` is outside the subset")
        e = s[1]
        if e[0] == "macro":
            if e[1] in LOG_MACROS:
                return cont(env)
            if e[1] == "panic":
                return self.mpanic(e, ctx)
            raise ShapeError(f"{ctx.what}: macro `{e[1]}!` is outside the subset")
        if e[0] == "assert":
            c = self.tr(e[1], env, ctx)
            msg = ("assertion failed: " + e[2]).replace("\\", "\\\\").replace('"', '\\"')
            return f'(if {self.as_prop(c, ctx)} then {cont(env)} else {self.mon}.panic "{msg}")'
        if e[0] == "return":
            return self.mreturn(e[1], env, ctx)
        if e[0] == "break":
            if ctx.loop is None or e[1] is not None:
                raise ShapeError(f"{ctx.what}: `break` outside a loop / with a value")
            return ctx.loop["brk"](env)
        if e[0] == "continue":
            if ctx.loop is None:
                raise ShapeError(f"{ctx.what}: `continue` outside a loop")
            return ctx.loop["cont"](env)
        if e[0] == "iflet":
            return self.st_mbranch(e, env, ctx, cont)
        if not self.is_effectful(e, env, ctx):
            # a pure statement: the pure translator, with the rest as its continuation
            v = self.run([s], dict(env), ctx, lambda env2: V(cont(env2), ("unit",)))
            return f"({v.lean})"
        if e[0] == "try":
            cls = self.mclass(e[1], env, ctx)
            if cls[0] == "m":
                return self.mtry(cls[1], "_", cont(env), ctx)
            if cls[0] == "mi":
                return self.bind(cls[1], "_", cont(env))
            if cls[0] == "res":
                return self.mtry(f"({self.mon}.lift {cls[1]})", "_", cont(env), ctx)
            raise ShapeError(f"{ctx.what}: `?` on a pure value as a statement is outside the subset")
        if e[0] in ("if", "iflet", "match"):
            return self.st_mbranch(e, env, ctx, cont)
        if e[0] == "block":
            return self.mrun(stmts_of(e), dict(env), ctx, lambda env2: cont(self.restore(env2, env, ctx)))
        if e[0] == "assign":
            return self.st_massign(e, env, ctx, cont)
        if e[0] == "mcall" or e[0] == "call":
            cls = self.mclass(e, env, ctx)
            if cls[0] == "mi":
                return self.bind(cls[1], "_", cont(env))
            if cls[0] == "m":
                raise ShapeError(f"{ctx.what}: the result of a fallible call is dropped (outside the subset)")
            return self.st_mblockwrite(e, env, ctx, cont)
        raise ShapeError(f"{ctx.what}: statement `{e[0]}` is outside the subset")

    def st_mbranch(self, e, env, ctx, cont):
        escapes = returns_value(e) or has_node(e, ("break", "continue"))
        if escapes:
            names = set()
            declared_names(e, names)
            for n in names:
                if n in env and env[n][0] in ("val", "cacheblk", "res"):
                    raise ShapeError(f"{ctx.what}: `{n}` is shadowed inside a branch that also leaves early")
            return self.branching(e, env, ctx, lambda b, envb: self.mrun(
                stmts_of(b), dict(envb), ctx, lambda env2: cont(self.restore(env2, env, ctx))))
        names = self.mstate_vars(e, env, ctx)
        text = self.branching(e, env, ctx, lambda b, envb: self.mrun(
            stmts_of(b), dict(envb), ctx, lambda env2: f"(pure {self.tuple_m(names, env2)})"))
        st = self.tmp()
        return self.bind(text, st if names else "_", self.unpack_m(names, st, env, cont(env)))

    def simple_operand(self, e):
        """an operand that cannot panic by itself (overflow aside): names, fields, literals, casts, + - *"""
        k = e[0]
        if k in ("path", "lit"):
            return True
        if k in ("paren", "cast", "field", "un"):
            return self.simple_operand(e[1] if k != "un" else e[2])
        if k == "bin" and e[1] in ("+", "-", "*"):
            return self.simple_operand(e[2]) and self.simple_operand(e[3])
        return False

    def st_mlet(self, s, env, ctx, cont):
        _, pat, ty, init = s
        if init is None:
            raise ShapeError(f"{ctx.what}: `let` without an initialiser is outside the subset")
        # `let x = a / b;` with a divisor that is not a non-zero constant: the panic of the division is made explicit
        core_ = init
        while core_[0] == "paren":
            core_ = core_[1]
        if core_[0] == "bin" and core_[1] in ("/", "%") and id(core_) not in self.div_ok and \
                self.simple_operand(core_[2]) and self.simple_operand(core_[3]):
            bv = self.tr(core_[3], env, ctx)
            if bv.const is None:
                self.div_ok.add(id(core_))
                self.div_keep.append(core_)
                msg = "attempt to divide by zero" if core_[1] == "/" else \
                    "attempt to calculate the remainder with a divisor of zero"
                return f'(if {bv.lean} = 0 then {self.mon}.panic "{msg}" else {self.st_mlet(s, env, ctx, cont)})'
        if pat[0] == "pwild":
            name = self.tmp()
        elif pat[0] == "pbind":
            name = pat[1]
            self.check_local(name, ctx)
        else:
            raise ShapeError(f"{ctx.what}: destructuring `let` is outside the subset")
        ln = lname(name) if not name.startswith("_t") else name
        want = self.conv_type(ty, ctx.what, ctx.impl) if ty is not None else None

        def with_val(t):
            env2 = dict(env)
            env2[name] = ("val", ln, t)
            return env2

        def with_block():
            env2 = dict(env)
            env2[name] = ("cacheblk", ln)
            return env2
        core = init[1] if init[0] == "try" else init
        cls = self.mclass(core, env, ctx)
        if init[0] == "try":
            if cls[0] == "mo":
                return self.mexpr_k(init, env, ctx, lambda val, t, _e: f"(let {ln} := {val}; {cont(with_val(t))})")
            if cls[0] in ("m", "mi"):
                if cls[3]:
                    return self.mtry(cls[1], "_", self.bind(self.cache_blk, ln, cont(with_block())), ctx)
                return self.mtry(cls[1], ln, cont(with_val(cls[2])), ctx)
            if cls[0] == "res":
                return self.mtry(f"({self.mon}.lift {cls[1]})", ln, cont(with_val(cls[2])), ctx)
            v = self.infallible_conversion(core, env, ctx)
            if v is not None:
                return f"(let {ln} := {self.value(v, ctx)}; {cont(with_val(v.ty))})"
            raise ShapeError(f"{ctx.what}: `?` on a pure value is outside the subset in monadic mode")
        if cls[0] == "m":
            env2 = dict(env)
            env2[name] = ("res", ln, cls[2])
            return self.bind(f"({self.mon}.attempt {cls[1]})", ln, cont(env2))
        if cls[0] == "mi":
            if cls[3]:
                return self.bind(cls[1], "_", self.bind(self.cache_blk, ln, cont(with_block())))
            return self.bind(cls[1], ln, cont(with_val(cls[2])))
        if cls[0] == "res":
            raise ShapeError(f"{ctx.what}: copying an outcome into another variable is outside the subset")
        if init[0] == "mcall" and init[2] in ("expect", "unwrap") and not self.is_effectful(init[1], env, ctx):
            ov = self.tr(init[1], env, ctx)
            ot = self.res(ov.ty)
            if ot[0] != "option":
                raise ShapeError(f"{ctx.what}: `{init[2]}` on {self.show(ot)} is outside the subset")
            msg = "called `Option::unwrap()` on a `None` value"
            if init[2] == "expect":
                if len(init[3]) != 1 or init[3][0][0] != "str":
                    raise ShapeError(f"{ctx.what}: expect needs a literal message")
                msg = init[3][0][1]
            msg = msg.replace("\\", "\\\\").replace('"', '\\"')
            return f'(match {ov.lean} with | some {ln} => {cont(with_val(ot[1]))} | none => {self.mon}.panic "{msg}")'
        if not self.is_effectful(init, env, ctx):
            try:
                probe = self.tr(init, dict(env), ctx)
                pure_ok = True
            except ShapeError:
                if init[0] not in ("match", "iflet"):
                    raise
                pure_ok = False
            if pure_ok:
                v = self.run([s], dict(env), ctx, lambda env2: V(cont(env2), ("unit",)))
                return f"({v.lean})"
        # an initialiser with effects / early exits inside (or a match the pure translator has no form for)
        tys = []
        if returns_value(init) or has_node(init, ("break", "continue")) or \
                (ctx.outparams and has_node(init, ("try", "return"))):
            def kx(val, t, _env):
                if t == ("blockref",):
                    return self.bind(self.cache_blk, ln, cont(with_block()))
                return f"(let {ln} := {val}; {cont(with_val(t))})"
            return self.mexpr_k(init, env, ctx, kx)

        # locals assigned (or lent as `&mut`) inside the initialiser travel with its value
        names = self.mstate_vars(init, env, ctx)

        def kj(val, t, _env):
            tys.append(t)
            if names:
                return f"(pure ({val}, {self.tuple_m(names, _env)}))"
            return f"(pure {val})"
        text = self.mexpr_k(init, env, ctx, kj)
        if names:
            st = self.tmp()

            def unpack(inner):
                return self.bind(text, st, self.unpack_m(names, st + ".2", env, inner))
            first = st + ".1"
        else:
            st = None

            def unpack(inner):
                return None
            first = None
        if tys and all(t2 == ("blockref",) for t2 in tys):
            rest = self.bind(self.cache_blk, ln, cont(with_block()))
            return unpack(rest) if names else self.bind(text, "_", rest)
        t = tys[0]
        for t2 in tys[1:]:
            t = self.unify(t, t2, ctx.what)
        if want is not None:
            self.unify(t, want, ctx.what)
        if names:
            return unpack(f"(let {ln} := {first}; {cont(with_val(t))})")
        return self.bind(text, ln, cont(with_val(t)))

    def infallible_conversion(self, e, env, ctx):
        """`usize::try_from(x).map_err(..)` for an `x` of at most 32 bits (usize is at least 32 bits wide)"""
        if e[0] == "mcall" and e[2] == "map_err":
            e = e[1]
        if e[0] == "call" and e[1] == ("path", ["usize", "try_from"]) and len(e[2]) == 1:
            v = self.tr(e[2][0], env, ctx)
            t = self.res(v.ty)
            if t[0] == "int" and t[1] <= 32:
                return V(v.lean, ("usize",), None, v.const)
        return None

    def mexpr_k(self, e, env, ctx, kx):
        """an expression that needs the monad, in value position; kx(value text, type, env) continues"""
        k = e[0]
        if k == "block":
            return self.mrun(list(e[1]), dict(env), ctx, lambda env2: (
                self.mexpr_k(e[2], env2, ctx, kx) if e[2] is not None else kx("()", ("unit",), env2)))
        if k in ("if", "iflet", "match"):
            return self.branching(e, env, ctx, lambda b, envb: self.mexpr_k(b, envb, ctx, kx))
        if k == "return":
            return self.mreturn(e[1], env, ctx)
        if k == "try":
            cls = self.mclass(e[1], env, ctx)
            if cls[0] == "mo":
                v, er, pm = self.tmp(), self.tmp(), self.tmp()
                emap = cls[5]
                return self.mo_call(cls, env, ctx, lambda r, env2: (
                    f"(match {r} with | Res.ok {v} => {kx(v, cls[2], env2)} "
                    f"| Res.err {er} => {self.ret_err(emap if emap is not None else er, ctx)} "
                    f"| Res.panic {pm} => {self.mon}.panic {pm} | Res.diverged => {self.mon}.diverge)"))
            if cls[0] in ("m", "mi"):
                t = self.tmp()
                if cls[3]:
                    return self.mtry(cls[1], "_", kx("()", ("blockref",), env), ctx)
                return self.mtry(cls[1], t, kx(t, cls[2], env), ctx)
            if cls[0] == "res":
                t = self.tmp()
                return self.mtry(f"({self.mon}.lift {cls[1]})", t, kx(t, cls[2], env), ctx)
            v = self.infallible_conversion(e[1], env, ctx)
            if v is not None:
                return kx(self.arg(v, ctx), v.ty, env)
            raise ShapeError(f"{ctx.what}: `?` on a pure value is outside the subset in monadic mode")
        if k == "macro" and e[1] == "panic":
            return self.mpanic(e, ctx)
        cls = self.mclass(e, env, ctx)
        if cls[0] == "mi":
            t = self.tmp()
            if cls[3]:
                return self.bind(cls[1], "_", kx("()", ("blockref",), env))
            return self.bind(cls[1], t, kx(t, cls[2], env))
        if cls[0] == "mo" and len(cls) > 6 and cls[6]:
            # a callee that hands `&mut` arguments back and does not return a `Result`: its value is used as it is
            # (an `Err` cannot come out of it; it is passed on if it did)
            v, er, pm = self.tmp(), self.tmp(), self.tmp()
            return self.mo_call(cls, env, ctx, lambda r, env2: (
                f"(match {r} with | Res.ok {v} => {kx(v, cls[2], env2)} "
                f"| Res.err {er} => {self.mon}.fail {er} "
                f"| Res.panic {pm} => {self.mon}.panic {pm} | Res.diverged => {self.mon}.diverge)"))
        if cls[0] != "pure":
            raise ShapeError(f"{ctx.what}: a Result used as a value is outside the subset (only `?`, `match`, or a "
                             f"`let` binding)")
        if self.is_effectful(e, env, ctx):
            raise ShapeError(f"{ctx.what}: effects inside this expression are outside the subset")
        v = self.tr(e, env, ctx)
        return kx(self.arg(v, ctx), v.ty, env)

    def st_massign(self, e, env, ctx, cont):
        _, op, lhs, rhs = e
        # `*alias = ..` where `if let Some(ref mut alias) = self.f`
        if lhs[0] == "deref" and lhs[1][0] == "path" and len(lhs[1][1]) == 1 and lhs[1][1][0] in env and \
                env[lhs[1][1][0]][0] == "selfopt":
            b = env[lhs[1][1][0]]
            if not b[4]:
                raise ShapeError(f"{ctx.what}: assignment through a non-`mut` binding")
            v = self.tr(rhs if op == "=" else ("bin", op[:-1], lhs[1], rhs), env, ctx)
            self.unify(v.ty, b[3], ctx.what)
            return self.bind(ctx.record["setter"](ctx.record["fields"][b[1]], f"(some {self.arg(v, ctx)})"), "_", cont(env))
        if lhs[0] == "field" and lhs[1] == ("path", ["self"]) and ctx.record is not None:
            f = lhs[2]
            if f not in ctx.record["fields"]:
                raise ShapeError(f"{ctx.what}: assignment to self.{f}, which has no place in the model's state")
            if op != "=":
                rhs = ("bin", op[:-1], lhs, rhs)
            lean_f = ctx.record["fields"][f]
            if not self.is_effectful(rhs, env, ctx):
                v = self.tr(rhs, env, ctx)
                self.unify(v.ty, self.rec_field(f, ctx).ty, ctx.what)
                return self.bind(ctx.record["setter"](lean_f, self.arg(v, ctx)), "_", cont(env))
            if returns_value(rhs) or has_node(rhs, ("break", "continue")):
                return self.mexpr_k(rhs, env, ctx, lambda val, t, _e: self.bind(
                    ctx.record["setter"](lean_f, val), "_", cont(env)))
            if self.mstate_vars(rhs, env, ctx):
                raise ShapeError(f"{ctx.what}: locals assigned inside the right-hand side of `self.{f} = ..` "
                                 "are outside the subset")
            t = self.tmp()
            text = self.mexpr_k(rhs, env, ctx, lambda val, ty, _e: f"(pure {val})")
            return self.bind(text, t, self.bind(ctx.record["setter"](lean_f, t), "_", cont(env)))
        # a component of a local tuple with an effectful right-hand side: evaluate, then assign
        if lhs[0] == "field" and lhs[1][0] == "path" and len(lhs[1][1]) == 1 and lhs[1][1][0] in env and \
                env[lhs[1][1][0]][0] == "val" and op == "=" and self.is_effectful(rhs, env, ctx):
            t = self.tmp()
            return self.mrun([("let", ("pbind", t), None, rhs), ("expr", ("assign", "=", lhs, ("path", [t])))], env, ctx,
                             lambda env3: cont({k2: v2 for k2, v2 in env3.items() if k2 != t}))
        # local variable with an effectful right-hand side
        if lhs[0] == "path" and len(lhs[1]) == 1 and lhs[1][0] in env and env[lhs[1][0]][0] == "val" and op == "=":
            n = lhs[1][0]
            tys = []
            if returns_value(rhs) or (ctx.outparams and has_node(rhs, ("try", "return"))):
                # the right-hand side may leave the function: the rest of the block goes inside
                def kc(val, t, _e):
                    self.unify(env[n][2], t, ctx.what)
                    return f"(let {env[n][1]} := {val}; {cont(env)})"
                return self.mexpr_k(rhs, env, ctx, kc)
            # other locals assigned inside the right-hand side travel with its value
            names = [x for x in self.mstate_vars(rhs, env, ctx) if x != n]

            def kj(val, t, _e):
                tys.append(t)
                if names:
                    return f"(pure ({val}, {self.tuple_m(names, _e)}))"
                return f"(pure {val})"
            text = self.mexpr_k(rhs, env, ctx, kj)
            for t2 in tys:
                self.unify(env[n][2], t2, ctx.what)
            if names:
                st = self.tmp()
                return self.bind(text, st, f"(let {env[n][1]} := {st}.1; " +
                                 self.unpack_m(names, st + ".2", env, cont(env)) + ")")
            return self.bind(text, env[n][1], cont(env))
        return self.st_mblockwrite(e, env, ctx, cont)

    def st_mblockwrite(self, e, env, ctx, cont):
        """a statement that writes into the cache block through a `&mut Block` binding (or `self.block[0]`)"""
        # inside BlockCache: `self.block[0].fill(0)`
        if e[0] == "mcall" and e[2] == "fill" and len(e[3]) == 1 and ctx.impl == CACHE_PARAM_TYPE and \
                e[1] == ("index", ("field", ("path", ["self"]), "block"), ("lit", 0, None)):
            v = self.tr(e[3][0], env, ctx)
            self.unify(v.ty, ("int", 8), ctx.what)
            return self.bind(f"(cacheModify fun _ => List.replicate 512 (UInt8.ofNat {v.lean}))", "_", cont(env))
        blocks = self.touches_block(e, env)
        if len(blocks) != 1:
            raise ShapeError(f"{ctx.what}: this effectful statement is outside the subset")
        n = blocks[0]
        ln = env[n][1]
        st = ("expr", e)
        if e[0] == "call" and e[1][0] == "path" and e[1][1][-1] in ("write_u16", "write_u32") and len(e[2]) == 2:
            w = "u16" if e[1][1][-1] == "write_u16" else "u32"
            dst = e[2][0]
            while dst[0] == "ref":
                dst = dst[1]
            st = ("expr", ("mcall", dst, "copy_from_slice",
                           [("ref", ("mcall", ("cast", e[2][1], ("ty", w, [])), "to_le_bytes", []))]))
        env2 = dict(env)
        env2[n] = ("val", ln, ("bytes", 512))
        v = self.run([st], env2, ctx, lambda env3: V(env3[n][1], ("bytes", 512)))
        return self.bind(self.cache_modify(f"fun {ln} => {v.lean}"), "_", cont(env))


import copy


class MLoops:
    def lean_ty_m(self, b, ctx):
        if b[0] == "val":
            return self.lean_type(b[2], ctx.what)
        if b[0] == "cacheblk":
            return "Block"
        if b[0] == "res":
            inner = self.lean_type(b[2], ctx.what)
            return f"Res ({inner})" if " " in inner else f"Res {inner}"
        raise ShapeError(f"{ctx.what}: a binding of kind `{b[0]}` is used across a loop boundary (outside the subset)")

    def st_mloop(self, s, env, ctx, cont):
        kind = s[0]
        cond = s[1] if kind == "while" else None
        body = s[-1]
        names = self.mstate_vars((cond, body), env, ctx)

        def make(env_l, ctx2, again, done):
            btext = self.mrun(stmts_of(body), env_l, ctx2, again)
            if cond is not None:
                c = self.tr(cond, env_l, ctx2)
                btext = f"(if {self.as_prop(c, ctx2)} then {btext} else {done(env_l)})"
            return btext
        return self.loop_core(env, ctx, cont, names, (cond, body), make)

    def st_mfor_range(self, s, env, ctx, cont):
        """`for _ in lo..hi { .. }`: recursion on the number of iterations"""
        _, pat, it, body = s
        while pat[0] == "pref":
            pat = pat[1]
        if pat[0] != "pwild" and not (pat[0] == "pbind" and pat[1].startswith("_")):
            raise ShapeError(f"{ctx.what}: a counted `for` that uses its loop variable is outside the subset")
        if it[1] is None or it[2] is None:
            raise ShapeError(f"{ctx.what}: open ranges are outside the subset")
        lo, hi = self.tr(it[1], env, ctx), self.tr(it[2], env, ctx)
        self.unify(lo.ty, hi.ty, ctx.what)
        cnt = f"({hi.lean} - {lo.lean})" if lo.const != 0 else hi.lean
        if it[3]:
            cnt = f"({hi.lean} + 1 - {lo.lean})"
        names = self.mstate_vars(body, env, ctx)

        def make(env_l, ctx2, again, done):
            return self.mrun(stmts_of(body), env_l, ctx2, again)
        return self.loop_core(env, ctx, cont, names, body, make, count=cnt if simple(cnt) else cnt)

    def st_mfor(self, s, env, ctx, cont):
        if s[2][0] == "range":
            return self.st_mfor_range(s, env, ctx, cont)
        return self.st_mfor_struct(s, env, ctx, cont)

    def st_mfor_struct(self, s, env, ctx, cont):
        """`for x in ITER { .. }` over a plain-struct iterator: `let mut it = ITER; loop { match it.next() {
        Some(x) => { .. }, None => break } }` with `next` translated as a pure function of the iterator's fields"""
        _, pat, it, body = s
        if self.is_effectful(it, env, ctx):
            raise ShapeError(f"{ctx.what}: effects in the iterator expression of a `for` are outside the subset")
        # `ITER.skip(k)` with a literal `k`: `next` is called `k` times first and its results are dropped
        skips = 0
        if it[0] == "mcall" and it[2] == "skip" and len(it[3]) == 1 and it[3][0][0] == "lit" and \
                isinstance(it[3][0][1], int) and 0 <= it[3][0][1] <= 4:
            skips = it[3][0][1]
            it = it[1]
        itv = self.tr(it, env, ctx)
        ity = self.res(itv.ty)
        if ity[0] != "struct" or (ity[1], "next") not in self.items.fns:
            raise ShapeError(f"{ctx.what}: `for` over {self.show(ity)} is outside the subset (only plain-struct "
                             f"iterators whose `next` is in the scanned files)")
        nxt = self.translate_mutfn((ity[1], "next"))
        if len(nxt.params) != len(nxt.self_fields):
            raise ShapeError(f"{ctx.what}: {nxt.name} takes extra parameters")
        rt = nxt.ret
        if rt[0] != "tuple" or self.res(rt[1][0])[0] != "option":
            raise ShapeError(f"{ctx.what}: {nxt.name} does not return an Option")
        item_ty = self.res(rt[1][0])[1]
        while pat[0] == "pref":
            pat = pat[1]
        if pat[0] == "pbind":
            var = pat[1]
            self.check_local(var, ctx)
        elif pat[0] == "pwild":
            var = self.tmp()
        else:
            raise ShapeError(f"{ctx.what}: loop pattern outside the subset")
        itn = self.tmp()
        env2 = dict(env)
        env2[itn] = ("val", itn, ity)
        names = [itn] + self.mstate_vars(body, env, ctx)
        if var in names:
            raise ShapeError(f"{ctx.what}: loop variable `{var}` shadows a variable the loop assigns")
        call = f"({nxt.name}" + "".join(f" {itn}.{lname(f)}" for f in nxt.self_fields) + ")"

        def make(env_l, ctx2, again, done):
            env_b = dict(env_l)
            lv = lname(var) if not var.startswith("_t") else var
            env_b[var] = ("val", lv, item_ty)
            btext = self.mrun(stmts_of(body), env_b, ctx2, lambda env3: again({k2: v2 for k2, v2 in env3.items() if k2 != var}))
            return f"(match {call} with | (some {lv}, {itn}) => {btext} | (none, {itn}) => {done(env_l)})"
        text = self.loop_core(env2, ctx, lambda env3: cont({k2: v2 for k2, v2 in env3.items() if k2 != itn}),
                              names, body, make)
        for _k in range(skips):
            text = f"(let {itn} := {call}.2; {text})"
        return f"(let {itn} := {itv.lean}; {text})"

    def loop_core(self, env, ctx, cont, names, node, make, count=None):
        """count=None: a fuel loop; otherwise the Lean text of the number of iterations (`for _ in lo..hi`):
        structural recursion on that number, no fuel"""
        info = ctx.info
        if count is None:
            info.fuel = True
        idx = len(info.aux)
        info.aux.append(None)
        name = f"{info.name}_loop{idx + 1}"
        used = set()
        free_names(node, used)
        captured = [n for n in env if n in used and n not in names and env[n][0] in ("val", "cacheblk", "res")]
        for n in used:
            if n in env and env[n][0] == "selfopt":
                raise ShapeError(f"{ctx.what}: a `ref` binding is used inside a loop (outside the subset)")
        wrap = returns_value(node) or bool(ctx.outparams and has_node(node, ("try", "return")))
        binders = ""
        args = ""
        if ctx.record is not None:
            binders += f" ({ctx.record['var']} : {ctx.record['lean_type']})"
            args += f" {ctx.record['var']}"
        for n in captured:
            binders += f" ({env[n][1]} : {self.lean_ty_m(env[n], ctx)})"
            args += f" {env[n][1]}"
        sig = " × ".join(self.lean_ty_m(env[n], ctx) for n in names) if names else "Unit"
        rho = self.raw_ret_lean(info, ctx.what)
        out_ty = f"Except ({rho}) ({sig})" if wrap else f"({sig})"

        def done(env2):
            t = self.tuple_m(names, env2)
            return f"(pure (Except.ok {t}))" if wrap else f"(pure {t})"

        rec = "fuel" if count is None else "_n"

        def again(env2):
            return f"({name}{args} {rec} {self.tuple_m(names, env2)})"
        ctx2 = copy.copy(ctx)
        ctx2.loop = dict(brk=done, cont=again)
        ctx2.loop_depth = ctx.loop_depth + 1
        if wrap:
            ctx2.loop_wrap = True
        env_l = dict(env)
        btext = make(env_l, ctx2, again, done)
        if self.modifies_self(node, env, ctx) and ctx.record is not None:
            btext = self.refetch(ctx, btext)
        pat = "_" if not names else (env[names[0]][1] if len(names) == 1 else "(" + ", ".join(env[n][1] for n in names) + ")")
        header = f"def {name}{binders} : Nat → ({sig}) → {self.mon} ({out_ty})"
        zero = None
        if count is not None:
            if "fuel" in re.findall(r"[A-Za-z_][A-Za-z0-9_']*", btext):
                raise ShapeError(f"{ctx.what}: a fuel loop or a callee with fuel inside a counted `for` is outside the subset")
            zero = (pat, done(env_l))
        info.aux[idx] = (header, (pat, btext), len(info.aux_done), zero, rec)
        info.aux_done.append(idx)
        call = f"({name}{args} {'fuel' if count is None else count} {self.tuple_m(names, env)})"
        st = self.tmp()
        if wrap:
            r = self.tmp()
            return self.bind(call, r, f"(match {r} with | Except.error {st} => {ctx.ret_raw(st)} | Except.ok {st} => "
                                      f"{self.unpack_m(names, st, env, cont(env))})")
        return self.bind(call, st if names else "_", self.unpack_m(names, st, env, cont(env)))


class MFns:
    def ret_info(self, decl, ctx):
        """-> (success type, fallible, blockref)"""
        if not decl.ret:
            return ("unit",), False, False
        ty = parse_type(decl.ret, ctx.what, self.items)
        fallible = False
        if ty[0] == "ty" and ty[1] == "Result":
            fallible = True
            ty = ty[2][0]
        t = ty
        while t[0] == "tref":
            t = t[1]
        if t[0] == "ty" and t[1] == "Block":
            return ("unit",), fallible, True
        if t[0] == "ttuple" and not t[1]:
            return ("unit",), fallible, False
        return self.conv_type(ty, ctx.what, decl.impl), fallible, False

    def translate_m(self, key):
        """(see `_translate_m`) a failure inside does not leave the function marked as being translated"""
        try:
            return self._translate_m(key)
        except ShapeError:
            self.m_in_progress.discard(key)
            raise

    def _translate_m(self, key):
        if key in self.mdone:
            return self.mdone[key]
        if key not in self.items.fns:
            raise ShapeError(f"function {key[0]}::{key[1]} not found in the scanned files")
        if key in self.m_in_progress:
            raise ShapeError(f"{key[0]}::{key[1]}: recursion is outside the subset")
        self.m_in_progress.add(key)
        decl = self.items.fns[key]
        what = f"{decl.where}: fn {(decl.impl + '::') if decl.impl else ''}{decl.name}"
        ctx = MCtx(what, decl.impl)
        info = MInfo((decl.impl + "_" if decl.impl else "") + decl.name)
        ctx.info = info
        self_kind, params = parse_params(decl, self.items)
        selfval = self.self_value(decl, self_kind) if self_kind is not None else None
        if self_kind is not None and selfval is None:
            if decl.impl not in RECORDS:
                raise ShapeError(f"{what}: `self` of {decl.impl} has no place in the model's state")
            ctx.record = RECORDS[decl.impl]
            ctx.self_mode = ("record", decl.impl)
        monadic = self.is_monadic(key)
        env, plist = {}, []
        if selfval is not None:
            env["self"] = ("val", "self_", selfval)
            plist.append(("self_", selfval))
        for pn, pty in params:
            t = pty
            while t[0] == "tref":
                t = t[1]
            if t[0] == "ty" and t[1] == CACHE_PARAM_TYPE:
                ctx.cache_param = pn
                continue
            self.check_local(pn, ctx)
            if self.special_param(pn, pty, env, plist, ctx):
                continue
            ty = self.conv_type(pty, f"{what}: parameter {pn}", decl.impl)
            env[pn] = ("val", lname(pn), ty)
            plist.append((lname(pn), ty))
            if pty[0] == "tref" and len(pty) == 3:
                if (ty[0] == "tuple" and all(self.res(x)[0] in ("int", "usize", "nt") for x in ty[1])) or \
                        self.is_value_outparam(ty):
                    ctx.outparams.append((pn, lname(pn)))
                elif ty[0] == "bytes":
                    ctx.outbufs.append((pn, lname(pn)))
                else:
                    raise ShapeError(f"{what}: `&mut` parameter {pn} of this type is outside the subset")
        info.outparams = [(pn, env[pn][2]) for pn, _l in ctx.outparams]
        info.outbufs = [pn for pn, _l in ctx.outbufs]
        info.param_names = [pn for pn, _t in params if not (lambda t: t[0] == "ty" and t[1] == CACHE_PARAM_TYPE)(
            (lambda t: t[1] if t[0] == "tref" else t)(_t))]
        body = self.rewrite_body(parse_fn_body(decl, self.items), env, ctx)
        doc = f"`{(decl.impl + '::') if decl.impl else ''}{decl.name}` ({decl.where})"
        if not monadic:
            if ctx.record is None:
                raise ShapeError(f"{what}: not a method of a state record (use the pure translator)")
            ctx.ret = self.conv_type(parse_type(decl.ret, what, self.items), what, decl.impl) if decl.ret else ("unit",)
            v = self.tr_block(body, env, ctx)
            self.unify(v.ty, ctx.ret, what)
            info.pure = True
            info.params = [(ctx.record["var"], ("record", decl.impl))] + plist
            info.ret = ctx.ret
            lean = self.value(v, ctx)
            if lean.startswith("(") and lean.endswith(")") and _balanced(lean[1:-1]):
                lean = lean[1:-1]
            info.body = self.resolve_placeholders(lean, what)
            info.doc = doc + (", as a function of the volume record" if decl.impl == "FatVolume" else ", as a function of the state")
        else:
            info.ret, info.fallible, info.blockref = self.ret_info(decl, ctx)
            info.ret = self.adjust_ret(info.ret, env, ctx)
            info.modifies = self.modifies_self(body, env, ctx) if self.self_is_mut(decl, self_kind) else False
            text = self.mrun(list(body[1]), env, ctx, lambda env2: self.mreturn(body[2], env2, ctx))
            if ctx.record is not None and (self.mentions_self(body) or info.aux):
                text = self.refetch(ctx, text)
            if text.startswith("(") and text.endswith(")") and _balanced(text[1:-1]):
                text = text[1:-1]
            info.body = self.resolve_placeholders(text, what)
            info.aux = [(a[0], (a[1][0], self.resolve_placeholders(a[1][1], what)), a[2],
                         None if a[3] is None else (a[3][0], self.resolve_placeholders(a[3][1], what)), a[4])
                        for a in info.aux]
            info.params = ([("fuel", ("fuelnat",))] if info.fuel else []) + plist
            info.doc = doc
        self.m_in_progress.discard(key)
        self.mdone[key] = info
        self.morder.append(key)
        return info

    def self_is_mut(self, decl, self_kind):
        return bool(self_kind) and "mut" in self_kind

    def special_param(self, pn, pty, env, plist, ctx):
        """hook: a parameter with a representation of its own (returns True when it has been entered)"""
        return False

    def rewrite_body(self, body, env, ctx):
        """hook: the parsed body before it is translated"""
        return body

    def self_value(self, decl, self_kind):
        """hook: the type of a `self` taken by value that is an ordinary value (not a state record), or None"""
        return None

    def is_value_outparam(self, ty):
        """hook: may a `&mut` parameter of this type be handed back next to the result?"""
        return False

    def adjust_ret(self, ret, env, ctx):
        """hook: the success type of the function"""
        return ret

    def special_arg(self, pn, pty, a, env, ctx):
        """hook: the Lean text passed for such a parameter of a callee, or None"""
        return None

    def raw_ret_lean(self, info, what):
        """Lean type of what the computation yields (with the `&mut` parameters it hands back)"""
        rt = self.lean_type(info.ret, what)
        if info.outbufs:
            rt = "(" + " × ".join([rt] + ["List UInt8"] * len(info.outbufs)) + ")"
        if info.outparams:
            ps = " × ".join(self.lean_type(t, what) for _n, t in info.outparams)
            inner = rt if " " not in rt or rt.startswith("(") else f"({rt})"
            rt = f"(({ps}) × Res {inner})"
        return rt

    def lean_type(self, t, what):
        t2 = self.res(t) if t[0] != "record" and t[0] != "fuelnat" else t
        if t2[0] == "record":
            return RECORDS[t2[1]]["lean_type"]
        if t2[0] == "fuelnat":
            return "Nat"
        return super().lean_type(t, what)


class MFull(MFns, MLoops, MFlow, MStmts, MTrans):
    pass


# --------------------------------------------------------------------------------------
# What is translated
# --------------------------------------------------------------------------------------

M_FUNCTIONS = [
    # C11: the block cache over the block device
    ("BlockCache", "read"), ("BlockCache", "read_mut"), ("BlockCache", "write_back"),
    ("BlockCache", "write_back_with_duplicate"), ("BlockCache", "blank_mut"),
    # C03 / C04: the FAT
    ("FatVolume", "cluster_to_block"), ("FatVolume", "next_cluster"), ("FatVolume", "update_fat"),
    ("FatVolume", "update_info_sector"),
    # C05 / C16: allocation
    ("FatVolume", "find_next_free_cluster"),
    ("FatVolume", "truncate_cluster_chain"), ("FatVolume", "free_cluster_chain"),
    ("FatVolume", "alloc_cluster"),
]

LEAN_HEADER_M = '''/-!
# Machine translation of effectful Rust functions into the model's `F` monad

Every definition below is produced by `tools/translate_m.py` (called from tools/extract.py) from the
text of the crate's source files; nothing here is written by hand.  `Props/C*GenM.lean` prove each
definition EQUAL to the hand-written model as a function `FS → Res α × FS` (for every fuel above a
stated bound where loops are involved), so an edit of the Rust function changes the definition here
and the equality no longer checks.  Pure sub-expressions are translated as in `Gen/Funs.lean` (same
operator table); what is added here:

## State

* `self` of `FatVolume` is the volume record `FS.vol` of the model (`Model/Mount.lean`), field for field
  (`lba_start ↦ lbaStart`, ...; `fat_specific_info` is the pair of `fatType` and the four payload
  fields of the same flat record, `match &self.fat_specific_info` is a `match v.fatType`).  The record is
  read with `F.getVol` at the start of the function and again after every statement that may assign a
  field (directly, through a `ref mut` binding, or in a callee); `self.f = e` is `F.modifyVol`.
* `self` of `BlockCache` is the model's `FS.cache` (`block_idx ↦ tag`, `block[0] ↦ blk`); the block device
  appears only as `devRead idx` / `devWrite idx` (`self.block_device.read(&mut self.block, idx)` /
  `.write(&self.block, idx)`), whose failures are `Err.DeviceError`.
* The `&mut BlockCache<D>` parameter of the FAT functions is the state itself: `block_cache.read(i)`,
  `read_mut(i)` are `cacheRead i`, `write_back()` is `writeBack`, `write_back_with_duplicate(d)` is
  `writeBackWithDuplicate d`, `blank_mut(i)` is `blankMut i`.  The `&Block` / `&mut Block` they return is the
  cache block: it is read with `cacheBlk` when bound and again after every write through it; a write
  (`block[a..b].copy_from_slice(..)`, `LittleEndian::write_u16/u32(&mut block[a..=b], x)`) is
  `cacheModify fun block => ..`.

## Control

* A call that returns `Result` is a computation in `F`; `e?` is monadic bind (an error, a panic or a
  divergence of `e` ends the function with the state `e` left behind).  `let r = e;` without `?` is
  `F.attempt e` (the outcome as a value, the state kept); `r.is_err()`, `match r { Ok(..) | Err(..) }`,
  a final `r` (`F.lift r`) are the uses in the subset.  A `match` directly on a call is the same with
  the extra outcomes `panic` / `diverged` passed on unchanged.  `D::Error` is collapsed:
  `.map_err(Error::DeviceError)` and the `From` conversion of `?` are the identity on `Err.DeviceError`.
* `Err(Error::X)` is `F.fail Err.X`; `return Ok(v)` ends the function (inside a loop: ends the loop
  with `Except.error v`, which the caller of the loop turns into the function's result).
* `if` / `if let` / `match` statements whose branches only assign locals are joined
  (`(if c then .. pure (x, y) else ..) >>= fun (x, y) => rest`); when a branch leaves early the rest of
  the block is duplicated into the branches that continue.
* `loop`, `while` and `for` become one recursive definition each, by structural recursion on a `fuel`
  argument: `fuel = 0` answers `F.diverge`, every iteration passes `fuel - 1` on (also to the loops nested
  inside it and to callees that take fuel).  The state of a loop is the tuple of the locals it assigns;
  `break` returns it, `continue` recurses.  `for x in it` over a plain-struct iterator is
  `loop { match it.next() { Some(x) => body, None => break } }` with `next` translated as a pure
  function of the iterator's fields.
* `panic!("text {..}", ..)` and `.expect("text")` on `None` are `F.panic "text"` (the literal part of the
  message before the first `{`; formatted arguments are not modelled).
* `usize::try_from(x).map_err(..)?` for an `x` of at most 32 bits is `x` (usize is at least 32 bits).
* Logging macros are skipped.

## Arithmetic

As in the model, `u32` arithmetic is exact here: the side conditions (`cluster * 4 < 2^32`, ...) that
`Gen/Funs.lean` collects in `_ok` predicates for the same expressions are not generated again and not
enforced; under the model's `WFGeom` they hold.
-/
'''

PRELUDE_M = '''/-- `b[i]` of a byte array or slice. -/
def rdByte (b : List UInt8) (i : Nat) : Nat := (b.getD i 0).toNat

/-- `r.is_ok()` of an outcome held in a variable. -/
def isOk {α : Type} : Res α → Bool
  | .ok _ => true
  | _ => false

/-- The block cache's own fields (`block_idx`, `block[0]`), read. -/
def getCache : F Cache := fun s => (.ok s.cache, s)

/-- `self.block_idx = t` inside the block cache. -/
def setTag (t : Option Nat) : F Unit := fun s => (.ok (), { s with cache := { s.cache with tag := t } })
'''


def pretty_m(s, base=2):
    """line breaks after binds and before match arms; indentation follows the bracket depth"""
    out, depth, i, n = [], 0, 0, len(s)
    braces = 0      # inside a structure instance `{ .. }` nothing is broken (its fields are newline-sensitive)
    pat = re.compile(r" >>= fun [A-Za-z0-9_']+ => ")
    while i < n:
        c = s[i]
        if c in "([{":
            depth += 1
        elif c in ")]}":
            depth -= 1
        if c == "{":
            braces += 1
        elif c == "}":
            braces -= 1
        if braces > 0:
            out.append(c)
            i += 1
            continue
        m = pat.match(s, i)
        if m:
            out.append(m.group(0).rstrip() + "\n" + " " * (base + min(depth, 30)))
            i = m.end()
            continue
        if s.startswith(" | ", i) and (s[i + 3:i + 4].isalpha() or s[i + 3:i + 4] in ("(", "_")) and "=>" in s[i:i + 80]:
            out.append("\n" + " " * (base + min(depth, 30)) + "| ")
            i += 3
            continue
        if s.startswith(" then ", i) or s.startswith(" else ", i):
            out.append("\n" + " " * (base + min(depth, 30)) + s[i + 1:i + 6])
            i += 6
            continue
        out.append(c)
        i += 1
    return "".join(out)


def render_loop(T, info, a):
    header, (pat, body), _rank, zero, rec = a
    if zero is None:
        return (f"/-- A loop of {info.doc}; `fuel` bounds the number of iterations. -/\n{header}\n"
                f"  | 0, _ => {T.mon}.diverge\n  | fuel + 1, {pat} =>\n    {pretty_m(body, 4)}\n")
    return (f"/-- A counted loop of {info.doc}, by recursion on the number of iterations left. -/\n{header}\n"
            f"  | 0, {zero[0]} => {zero[1]}\n  | {rec} + 1, {pat} =>\n    {pretty_m(body, 4)}\n")


def render_m(T):
    lines = ["import Sdmmc.Model.Dev\n", LEAN_HEADER_M, "set_option linter.unusedVariables false\n",
             "namespace Sdmmc.Gen.FunsM\n", "open Sdmmc.Model\n", PRELUDE_M]
    for kind, name in T.types_used:
        if kind != "struct":
            raise ShapeError(f"FunsM: the generated enum {name} is not supported in monadic mode")
        fl = []
        for fname, fty, isref in T.struct_fields(name, f"struct {name}"):
            if not isref:
                fl.append(f"  {lname(fname)} : {T.lean_type(T.conv_type(fty, 'struct ' + name, name), name)}\n")
        lines.append(f"/-- `struct {name}` (non-reference fields). -/\nstructure {name} where\n" + "".join(fl) +
                     "  deriving DecidableEq, Repr\n")
    for key in T.order:
        info = T.done[key]
        ps = "".join(f" ({n} : {T.lean_type(t, info.name)})" for n, t in info.params)
        lines.append(f"/-- {info.doc}. -/\ndef {info.name}{ps} : {T.lean_type(info.ret, info.name)} :=\n  {pretty(info.body)}\n")
    for key in T.morder:
        info = T.mdone[key]
        ps = "".join(f" ({n} : {T.lean_type(t, info.name)})" for n, t in info.params)
        for a in sorted(info.aux, key=lambda a: a[2]):
            lines.append(render_loop(T, info, a))
        rt = T.lean_type(info.ret, info.name) if info.pure else T.raw_ret_lean(info, info.name)
        if not info.pure:
            rt = f"{T.mon} ({rt})" if " " in rt else f"{T.mon} {rt}"
        lines.append(f"/-- {info.doc}. -/\ndef {info.name}{ps} : {rt} :=\n  {pretty_m(info.body) if not info.pure else pretty(info.body)}\n")
    lines.append("end Sdmmc.Gen.FunsM\n")
    return "\n".join(lines)


def generate_m(read_src, functions=None):
    items = Items()
    for f in FILES:
        items.scan_file(f, read_src(f))
    T = MFull(items)
    for key in (M_FUNCTIONS if functions is None else functions):
        T.translate_m(key)
    text = render_m(T)
    summary = {("::".join(str(x) for x in k)): [T.mdone[k].name, T.mdone[k].body, [a[1][1] for a in T.mdone[k].aux]]
               for k in T.morder}
    return text, summary
