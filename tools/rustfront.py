#!/usr/bin/env python3
"""Front end of the Rust -> Lean translator (tools/translate.py): lexer, item scanner,
`macro_rules!` expander and expression/statement parser for the subset of Rust that
translate.py understands.

Everything here is syntax only.  Anything that is not recognised raises ShapeError
(never a guess); the message names the file / function being read.
"""
import re


class ShapeError(Exception):
    pass


# --------------------------------------------------------------------------------------
# Lexer
# --------------------------------------------------------------------------------------

PUNCT = ["<<=", ">>=", "..=", "...", "<<", ">>", "==", "!=", "<=", ">=", "&&", "||", "..", "::", "->", "=>",
         "+=", "-=", "*=", "/=", "%=", "^=", "&=", "|=",
         "+", "-", "*", "/", "%", "^", "&", "|", "!", "=", "<", ">", "(", ")", "[", "]", "{", "}", ",", ";",
         ":", ".", "#", "?", "@", "$", "~"]

INT_SUFFIXES = ["u8", "u16", "u32", "u64", "u128", "usize", "i8", "i16", "i32", "i64", "i128", "isize"]


class Tok:
    __slots__ = ("k", "s", "v", "suf", "pos")

    def __init__(self, k, s, pos, v=None, suf=None):
        self.k, self.s, self.pos, self.v, self.suf = k, s, pos, v, suf

    def __repr__(self):
        return f"{self.k}:{self.s}"

    def same(self, other):
        return self.k == other.k and self.s == other.s


def lex(text, where):
    toks = []
    i, n = 0, len(text)
    while i < n:
        c = text[i]
        if c in " \t\r\n":
            i += 1
            continue
        if text.startswith("//", i):
            j = text.find("\n", i)
            i = n if j < 0 else j
            continue
        if text.startswith("/*", i):
            depth, j = 1, i + 2
            while j < n and depth:
                if text.startswith("/*", j):
                    depth += 1
                    j += 2
                elif text.startswith("*/", j):
                    depth -= 1
                    j += 2
                else:
                    j += 1
            i = j
            continue
        m = re.compile(r"[A-Za-z_][A-Za-z0-9_]*").match(text, i)
        if m:
            s = m.group(0)
            # byte string / raw string prefixes
            if s in ("b", "r", "br") and m.end() < n and text[m.end()] in "\"'#":
                q = text[m.end()]
                if q == "'" and s == "b":
                    mm = re.compile(r"'(\\.|\\x[0-9a-fA-F]{2}|[^'\\])'").match(text, m.end())
                    if not mm:
                        raise ShapeError(f"{where}: bad byte literal at {i}")
                    body = mm.group(1)
                    v = _char_value(body, where)
                    toks.append(Tok("int", text[i:mm.end()], i, v=v, suf="u8"))
                    i = mm.end()
                    continue
                if q == '"' and s == "b":
                    j = m.end() + 1
                    while j < n and text[j] != '"':
                        j += 2 if text[j] == "\\" else 1
                    toks.append(Tok("bstr", text[i:j + 1], i))
                    i = j + 1
                    continue
                mm = re.compile(r'(#*)"').match(text, m.end())
                if mm and s in ("r", "br"):
                    close = '"' + mm.group(1)
                    j = text.find(close, mm.end())
                    if j < 0:
                        raise ShapeError(f"{where}: unterminated raw string at offset {i}")
                    toks.append(Tok("bstr" if s == "br" else "str", text[i:j + len(close)], i, v=text[mm.end():j]))
                    i = j + len(close)
                    continue
                raise ShapeError(f"{where}: cannot read the literal at offset {i}")
            toks.append(Tok("id", s, i))
            i = m.end()
            continue
        if c.isdigit():
            m = re.compile(r"0x[0-9a-fA-F_]+|0b[01_]+|0o[0-7_]+|[0-9][0-9_]*").match(text, i)
            body = m.group(0)
            j = m.end()
            suf = None
            for sfx in INT_SUFFIXES:
                if text.startswith(sfx, j) and not re.match(r"[A-Za-z0-9_]", text[j + len(sfx):j + len(sfx) + 1] or " "):
                    suf = sfx
                    j += len(sfx)
                    break
            if suf is None and j < n and (text[j].isalpha() or (text[j] == "." and j + 1 < n and text[j + 1].isdigit())):
                raise ShapeError(f"{where}: float or unknown literal suffix at offset {i}")
            clean = body.replace("_", "")
            if clean.startswith("0x"):
                v = int(clean[2:], 16)
            elif clean.startswith("0b"):
                v = int(clean[2:], 2)
            elif clean.startswith("0o"):
                v = int(clean[2:], 8)
            else:
                v = int(clean, 10)
            toks.append(Tok("int", text[i:j], i, v=v, suf=suf))
            i = j
            continue
        if c == '"':
            j = i + 1
            while j < n and text[j] != '"':
                j += 2 if text[j] == "\\" else 1
            toks.append(Tok("str", text[i:j + 1], i, v=text[i + 1:j]))
            i = j + 1
            continue
        if c == "'":
            mm = re.compile(r"'(\\.|\\x[0-9a-fA-F]{2}|\\u\{[0-9a-fA-F]+\}|[^'\\])'").match(text, i)
            if mm:
                toks.append(Tok("char", mm.group(0), i))
                i = mm.end()
                continue
            mm = re.compile(r"'[A-Za-z_][A-Za-z0-9_]*").match(text, i)
            if mm:
                toks.append(Tok("life", mm.group(0), i))
                i = mm.end()
                continue
            raise ShapeError(f"{where}: stray quote at offset {i}")
        for p in PUNCT:
            if text.startswith(p, i):
                toks.append(Tok("p", p, i))
                i += len(p)
                break
        else:
            raise ShapeError(f"{where}: unknown character {c!r} at offset {i}")
    return toks


def _char_value(body, where):
    if body.startswith("\\x"):
        return int(body[2:], 16)
    if body.startswith("\\"):
        table = {"n": 10, "r": 13, "t": 9, "0": 0, "\\": 92, "'": 39, '"': 34}
        if body[1] not in table:
            raise ShapeError(f"{where}: unknown escape {body}")
        return table[body[1]]
    return ord(body)


OPEN = {"(": ")", "[": "]", "{": "}"}


def match_table(toks, where):
    """index of the matching bracket for every bracket token."""
    tbl = {}
    stack = []
    for i, t in enumerate(toks):
        if t.k == "p" and t.s in OPEN:
            stack.append(i)
        elif t.k == "p" and t.s in (")", "]", "}"):
            if not stack or OPEN[toks[stack[-1]].s] != t.s:
                raise ShapeError(f"{where}: unbalanced bracket at offset {t.pos}")
            j = stack.pop()
            tbl[j] = i
            tbl[i] = j
    if stack:
        raise ShapeError(f"{where}: unclosed bracket at offset {toks[stack[-1]].pos}")
    return tbl


# --------------------------------------------------------------------------------------
# Items
# --------------------------------------------------------------------------------------

class FnDecl:
    def __init__(self, where, impl, name, params, ret, body):
        self.where, self.impl, self.name = where, impl, name
        self.params = params      # token list between the parentheses
        self.ret = ret            # token list of the return type ([] = unit)
        self.body = body          # token list between the braces


class Items:
    """All items of the scanned files."""

    def __init__(self):
        self.fns = {}        # (impl or None, name) -> FnDecl
        self.structs = {}    # name -> ("named", [(field, type toks)]) | ("tuple", [type toks])
        self.enums = {}      # name -> [(variant, [payload type toks])]
        self.consts = {}     # (impl or None, name) -> (type toks, expr toks, where)
        self.macros = {}     # name -> [(pattern toks, body toks)]
        self.assoc = {}      # (impl, name) -> type toks of `type name = ..;` inside an impl
        self.variant_fields = {}    # (enum, variant) -> field names of a struct-like variant

    # ---- scanning ----
    def scan_file(self, rel, text):
        toks = lex(text, rel)
        self._scan(toks, rel, None)

    def _scan_nested(self, toks, where):
        """`enum X { .. }` / `impl X { .. }` items written inside a function body (at its top level)"""
        mt = match_table(toks, where)
        i, n = 0, len(toks)
        while i < n:
            t = toks[i]
            if t.k == "id" and t.s in ("enum", "impl") and i + 1 < n and toks[i + 1].k == "id" and \
                    (i == 0 or (toks[i - 1].k == "p" and toks[i - 1].s in (";", "}", "]"))):
                j = i + 2
                while j < n and not (toks[j].k == "p" and toks[j].s == "{"):
                    j += 1
                if j < n:
                    self._scan(toks[i:mt[j] + 1], where, None)
                    i = mt[j] + 1
                    continue
            if t.k == "p" and t.s in OPEN:
                i = mt[i] + 1
                continue
            i += 1

    def _scan(self, toks, where, impl):
        mt = match_table(toks, where)
        i, n = 0, len(toks)

        def is_p(j, s):
            return j < n and toks[j].k == "p" and toks[j].s == s

        def is_id(j, s=None):
            return j < n and toks[j].k == "id" and (s is None or toks[j].s == s)

        def skip_generics(j):
            if not is_p(j, "<"):
                return j
            depth = 0
            while j < n:
                t = toks[j]
                if t.k == "p" and t.s == "<":
                    depth += 1
                elif t.k == "p" and t.s == ">":
                    depth -= 1
                elif t.k == "p" and t.s == ">>":
                    depth -= 2
                elif t.k == "p" and t.s in OPEN:
                    j = mt[j]
                j += 1
                if depth <= 0:
                    return j
            raise ShapeError(f"{where}: unclosed generics")

        def to_semicolon(j):
            while j < n and not is_p(j, ";"):
                if toks[j].k == "p" and toks[j].s in OPEN:
                    j = mt[j]
                j += 1
            return j + 1

        cfg_test = False
        while i < n:
            t = toks[i]
            if is_p(i, "#"):
                j = i + 1
                if is_p(j, "!"):
                    j += 1
                if not is_p(j, "["):
                    raise ShapeError(f"{where}: stray # at offset {t.pos}")
                attr = "".join(x.s for x in toks[j + 1:mt[j]])
                if attr.replace(" ", "") == "cfg(test)":
                    cfg_test = True
                i = mt[j] + 1
                continue
            if is_id(i, "pub"):
                i += 1
                if is_p(i, "("):
                    i = mt[i] + 1
                continue
            if is_id(i, "type") and impl is not None and is_id(i + 1) and is_p(i + 2, "="):
                e = to_semicolon(i)
                self.assoc[(impl, toks[i + 1].s)] = toks[i + 3:e - 1]
                i = e
                cfg_test = False
                continue
            if is_id(i, "use") or is_id(i, "type") or is_id(i, "extern"):
                i = to_semicolon(i)
                cfg_test = False
                continue
            if is_id(i, "mod"):
                name = toks[i + 1].s
                if is_p(i + 2, ";"):
                    i += 3
                elif is_p(i + 2, "{"):
                    if not (cfg_test or name in ("tests", "test")):
                        self._scan(toks[i + 3:mt[i + 2]], where, None)
                    i = mt[i + 2] + 1
                else:
                    raise ShapeError(f"{where}: cannot read `mod {name}`")
                cfg_test = False
                continue
            if (is_id(i, "const") or is_id(i, "static")) and not is_id(i + 1, "fn") and not is_id(i + 1, "unsafe"):
                j = i + 1
                if is_id(j, "mut"):
                    j += 1
                name = toks[j].s
                if not is_p(j + 1, ":"):
                    raise ShapeError(f"{where}: const {name} without a type")
                k = j + 2
                while k < n and not is_p(k, "=") and not is_p(k, ";"):
                    if toks[k].k == "p" and toks[k].s in OPEN:
                        k = mt[k]
                    k += 1
                ty = toks[j + 2:k]
                e = to_semicolon(k)
                if is_p(k, "=") and not cfg_test:
                    self.consts[(impl, name)] = (ty, toks[k + 1:e - 1], f"{where}: const {name}")
                i = e
                cfg_test = False
                continue
            if is_id(i, "fn") or ((is_id(i, "const") or is_id(i, "unsafe") or is_id(i, "async")) and
                                  (is_id(i + 1, "fn") or is_id(i + 2, "fn"))):
                while not is_id(i, "fn"):
                    i += 1
                name = toks[i + 1].s
                j = skip_generics(i + 2)
                if not is_p(j, "("):
                    raise ShapeError(f"{where}: fn {name}: no parameter list")
                params = toks[j + 1:mt[j]]
                j = mt[j] + 1
                ret = []
                if is_p(j, "->"):
                    k = j + 1
                    while k < n and not is_p(k, "{") and not is_p(k, ";") and not is_id(k, "where"):
                        if toks[k].k == "p" and toks[k].s in ("(", "["):
                            k = mt[k]
                        k += 1
                    ret = toks[j + 1:k]
                    j = k
                if is_id(j, "where"):
                    while j < n and not is_p(j, "{") and not is_p(j, ";"):
                        if toks[j].k == "p" and toks[j].s in ("(", "["):
                            j = mt[j]
                        j += 1
                if is_p(j, ";"):
                    i = j + 1
                elif is_p(j, "{"):
                    if not cfg_test:
                        self.fns.setdefault((impl, name), FnDecl(where, impl, name, params, ret, toks[j + 1:mt[j]]))
                        self._scan_nested(toks[j + 1:mt[j]], where)
                    i = mt[j] + 1
                else:
                    raise ShapeError(f"{where}: fn {name}: no body")
                cfg_test = False
                continue
            if is_id(i, "impl"):
                j = skip_generics(i + 1)
                # self type = last path before `{` / `where`; with `for`, the path after it
                k = j
                segs = []
                cur = []
                while k < n and not is_p(k, "{") and not is_id(k, "where"):
                    if is_id(k, "for"):
                        cur = []
                    elif is_p(k, "<"):
                        k = skip_generics(k) - 1
                    elif toks[k].k == "id":
                        cur.append(toks[k].s)
                    elif is_p(k, "::") or toks[k].k == "life" or is_p(k, "&"):
                        pass
                    elif toks[k].k == "p" and toks[k].s in ("(", "["):
                        cur.append("?")
                        k = mt[k]
                    else:
                        raise ShapeError(f"{where}: cannot read impl header at offset {toks[k].pos}")
                    k += 1
                while k < n and not is_p(k, "{"):
                    if toks[k].k == "p" and toks[k].s in ("(", "["):
                        k = mt[k]
                    k += 1
                ty = cur[-1] if cur else None
                if ty is None:
                    raise ShapeError(f"{where}: impl without a type")
                if not cfg_test:
                    self._scan(toks[k + 1:mt[k]], where, ty)
                i = mt[k] + 1
                cfg_test = False
                continue
            if is_id(i, "struct") or is_id(i, "union"):
                name = toks[i + 1].s
                j = skip_generics(i + 2)
                if is_id(j, "where"):
                    while not is_p(j, "{") and not is_p(j, ";"):
                        j += 1
                if is_p(j, "{"):
                    fields = []
                    for part in split_commas(toks[j + 1:mt[j]], where):
                        part = strip_attrs_vis(part, where)
                        if not part:
                            continue
                        if not (part[0].k == "id" and len(part) > 2 and part[1].s == ":"):
                            raise ShapeError(f"{where}: struct {name}: cannot read field")
                        fields.append((part[0].s, part[2:]))
                    self.structs[name] = ("named", fields)
                    i = mt[j] + 1
                elif is_p(j, "("):
                    tys = [strip_attrs_vis(p, where) for p in split_commas(toks[j + 1:mt[j]], where)]
                    self.structs[name] = ("tuple", [p for p in tys if p])
                    i = to_semicolon(mt[j])
                elif is_p(j, ";"):
                    self.structs[name] = ("tuple", [])
                    i = j + 1
                else:
                    raise ShapeError(f"{where}: cannot read struct {name}")
                cfg_test = False
                continue
            if is_id(i, "enum"):
                name = toks[i + 1].s
                j = skip_generics(i + 2)
                if is_id(j, "where"):
                    while j < n and not is_p(j, "{"):
                        j += 1
                if not is_p(j, "{"):
                    raise ShapeError(f"{where}: cannot read enum {name}")
                variants = []
                for part in split_commas(toks[j + 1:mt[j]], where):
                    part = strip_attrs_vis(part, where)
                    if not part:
                        continue
                    vname = part[0].s
                    if len(part) == 1:
                        variants.append((vname, []))
                    elif part[1].s == "(":
                        inner = part[2:-1]
                        variants.append((vname, [strip_attrs_vis(p, where) for p in split_commas(inner, where)]))
                    elif part[1].s == "=":
                        variants.append((vname, []))
                    elif part[1].s == "{":
                        # struct-like variant: the payload types in order, the field names aside
                        names, tys = [], []
                        for fp in split_commas(part[2:-1], where):
                            fp = strip_attrs_vis(fp, where)
                            if not fp:
                                continue
                            if not (fp[0].k == "id" and len(fp) > 2 and fp[1].s == ":"):
                                raise ShapeError(f"{where}: enum {name}::{vname}: cannot read field")
                            names.append(fp[0].s)
                            tys.append(fp[2:])
                        variants.append((vname, tys))
                        self.variant_fields[(name, vname)] = names
                    else:
                        variants.append((vname, None))     # not usable
                self.enums[name] = variants
                i = mt[j] + 1
                cfg_test = False
                continue
            if is_id(i, "trait"):
                j = i
                while not is_p(j, "{"):
                    j += 1
                i = mt[j] + 1
                cfg_test = False
                continue
            if is_id(i, "macro_rules") and is_p(i + 1, "!"):
                name = toks[i + 2].s
                j = i + 3
                if not (is_p(j, "{") or is_p(j, "(")):
                    raise ShapeError(f"{where}: cannot read macro_rules! {name}")
                self.macros[name] = parse_macro_rules(toks[j + 1:mt[j]], f"{where}: macro_rules! {name}")
                i = mt[j] + 1
                if is_p(i, ";"):
                    i += 1
                cfg_test = False
                continue
            if t.k == "id" and is_p(i + 1, "!") and (is_p(i + 2, "(") or is_p(i + 2, "{") or is_p(i + 2, "[")):
                j = i + 2
                if t.s in self.macros and not cfg_test:
                    out = expand_macro(self, t.s, toks[j + 1:mt[j]], f"{where}: {t.s}!")
                    self._scan(out, where, impl)
                i = mt[j] + 1
                if is_p(i, ";"):
                    i += 1
                cfg_test = False
                continue
            raise ShapeError(f"{where}: cannot read the item starting with `{t.s}` at offset {t.pos}")


def split_commas(toks, where):
    mt = match_table(toks, where)
    parts, cur, i, depth = [], [], 0, 0
    while i < len(toks):
        t = toks[i]
        if t.k == "p" and t.s in OPEN:
            cur.extend(toks[i:mt[i] + 1])
            i = mt[i] + 1
            continue
        if t.k == "p" and t.s == "<":
            depth += 1
        elif t.k == "p" and t.s == ">":
            depth = max(0, depth - 1)
        elif t.k == "p" and t.s == ">>":
            depth = max(0, depth - 2)
        if t.k == "p" and t.s == "," and depth == 0:
            parts.append(cur)
            cur = []
        else:
            cur.append(t)
        i += 1
    if cur:
        parts.append(cur)
    return parts


def strip_attrs_vis(part, where):
    mt = match_table(part, where)
    i = 0
    while i < len(part):
        if part[i].k == "p" and part[i].s == "#":
            i = mt[i + 1] + 1
        elif part[i].k == "id" and part[i].s == "pub":
            i += 1
            if i < len(part) and part[i].s == "(":
                i = mt[i] + 1
        else:
            break
    return part[i:]


# --------------------------------------------------------------------------------------
# macro_rules!
# --------------------------------------------------------------------------------------

def parse_macro_rules(toks, where):
    mt = match_table(toks, where)
    arms, i = [], 0
    while i < len(toks):
        if not (toks[i].k == "p" and toks[i].s in OPEN):
            raise ShapeError(f"{where}: arm pattern expected")
        pat = toks[i + 1:mt[i]]
        i = mt[i] + 1
        if not (i < len(toks) and toks[i].s == "=>"):
            raise ShapeError(f"{where}: `=>` expected")
        i += 1
        body = toks[i + 1:mt[i]]
        i = mt[i] + 1
        if i < len(toks) and toks[i].s == ";":
            i += 1
        arms.append((pat, body))
    return arms


def _pat_elems(pat, where):
    """pattern tokens -> list of ('tok', Tok) | ('frag', name, kind) | ('rep', elems, sep, op)"""
    mt = match_table(pat, where)
    out, i = [], 0
    while i < len(pat):
        t = pat[i]
        if t.k == "p" and t.s == "$":
            nx = pat[i + 1]
            if nx.k == "id":
                if not (pat[i + 2].s == ":" and pat[i + 3].k == "id"):
                    raise ShapeError(f"{where}: fragment specifier expected after ${nx.s}")
                out.append(("frag", nx.s, pat[i + 3].s))
                i += 4
                continue
            if nx.s == "(":
                inner = _pat_elems(pat[i + 2:mt[i + 1]], where)
                j = mt[i + 1] + 1
                sep = None
                if pat[j].s not in ("+", "*", "?"):
                    sep = pat[j]
                    j += 1
                op = pat[j].s
                if op not in ("+", "*"):
                    raise ShapeError(f"{where}: repetition operator {op} is outside the subset")
                out.append(("rep", inner, sep, op))
                i = j + 1
                continue
            raise ShapeError(f"{where}: cannot read `$` pattern")
        if t.k == "p" and t.s in OPEN:
            out.append(("group", t, _pat_elems(pat[i + 1:mt[i]], where), pat[mt[i]]))
            i = mt[i] + 1
            continue
        out.append(("tok", t))
        i += 1
    return out


def _match_elems(elems, toks, pos, binds, where, items):
    """returns new pos or None"""
    for idx, el in enumerate(elems):
        if el[0] == "tok":
            if pos < len(toks) and toks[pos].same(el[1]) and (el[1].k != "int" or toks[pos].v == el[1].v):
                pos += 1
            else:
                return None
        elif el[0] == "group":
            if not (pos < len(toks) and toks[pos].same(el[1])):
                return None
            mt = match_table(toks, where)
            inner = toks[pos + 1:mt[pos]]
            p2 = _match_elems(el[2], inner, 0, binds, where, items)
            if p2 is None or p2 != len(inner):
                return None
            pos = mt[pos] + 1
        elif el[0] == "frag":
            _, name, kind = el
            if kind == "ident":
                if pos < len(toks) and toks[pos].k == "id":
                    binds[name] = ("ident", [toks[pos]])
                    pos += 1
                else:
                    return None
            elif kind == "ty":
                if pos < len(toks) and toks[pos].k == "id":
                    j = pos + 1
                    while j + 1 < len(toks) and toks[j].s == "::" and toks[j + 1].k == "id":
                        j += 2
                    binds[name] = ("ty", toks[pos:j])
                    pos = j
                else:
                    return None
            elif kind in ("expr", "literal"):
                try:
                    p = Parser(toks, where, items, pos)
                    p.expr()
                    end = p.i
                except ShapeError:
                    return None
                if end == pos:
                    return None
                binds[name] = ("expr", toks[pos:end])
                pos = end
            elif kind == "tt":
                if pos >= len(toks):
                    return None
                if toks[pos].k == "p" and toks[pos].s in OPEN:
                    mt = match_table(toks, where)
                    binds[name] = ("tt", toks[pos:mt[pos] + 1])
                    pos = mt[pos] + 1
                else:
                    binds[name] = ("tt", [toks[pos]])
                    pos += 1
            else:
                raise ShapeError(f"{where}: fragment kind `{kind}` is outside the subset")
        elif el[0] == "rep":
            _, inner, sep, op = el
            reps = []
            while True:
                b = {}
                p2 = _match_elems(inner, toks, pos, b, where, items)
                if p2 is None:
                    break
                reps.append(b)
                pos = p2
                if sep is not None:
                    if pos < len(toks) and toks[pos].same(sep):
                        pos += 1
                    else:
                        break
            if op == "+" and not reps:
                return None
            names = set()
            for e2 in inner:
                _collect_names(e2, names)
            for nm in names:
                binds[nm] = ("rep", [r.get(nm) for r in reps])
    return pos


def _collect_names(el, names):
    if el[0] == "frag":
        names.add(el[1])
    elif el[0] == "group":
        for e in el[2]:
            _collect_names(e, names)
    elif el[0] == "rep":
        for e in el[1]:
            _collect_names(e, names)


def _transcribe(body, binds, where):
    mt = match_table(body, where)
    out, i = [], 0
    while i < len(body):
        t = body[i]
        if t.k == "p" and t.s == "$":
            nx = body[i + 1]
            if nx.k == "id" and nx.s == "crate":
                out.append(Tok("id", "crate", nx.pos))
                i += 2
                continue
            if nx.k == "id":
                if nx.s not in binds:
                    raise ShapeError(f"{where}: unbound ${nx.s}")
                kind, val = binds[nx.s]
                if kind == "rep":
                    raise ShapeError(f"{where}: ${nx.s} used outside its repetition")
                if kind == "expr" and len(val) > 1:
                    out.append(Tok("p", "(", nx.pos))
                    out.extend(val)
                    out.append(Tok("p", ")", nx.pos))
                else:
                    out.extend(val)
                i += 2
                continue
            if nx.s == "(":
                inner = body[i + 2:mt[i + 1]]
                j = mt[i + 1] + 1
                sep = None
                if body[j].s not in ("+", "*"):
                    sep = body[j]
                    j += 1
                names = [x.s for k, x in enumerate(inner) if x.k == "id" and k > 0 and inner[k - 1].s == "$"]
                reps = [binds[nm][1] for nm in names if nm in binds and binds[nm][0] == "rep"]
                if not reps:
                    raise ShapeError(f"{where}: repetition without a repeated variable")
                cnt = len(reps[0])
                if any(len(r) != cnt for r in reps):
                    raise ShapeError(f"{where}: repetition counts differ")
                for r in range(cnt):
                    b2 = dict(binds)
                    for nm in names:
                        if nm in binds and binds[nm][0] == "rep":
                            b2[nm] = binds[nm][1][r]
                    if r and sep is not None:
                        out.append(sep)
                    out.extend(_transcribe(inner, b2, where))
                i = j + 1
                continue
            raise ShapeError(f"{where}: cannot transcribe `$`")
        if t.k == "p" and t.s in OPEN:
            out.append(t)
            out.extend(_transcribe(body[i + 1:mt[i]], binds, where))
            out.append(body[mt[i]])
            i = mt[i] + 1
            continue
        out.append(t)
        i += 1
    return out


def expand_macro(items, name, args, where):
    if name not in items.macros:
        raise ShapeError(f"{where}: macro {name}! is not defined in the scanned files")
    for pat, body in items.macros[name]:
        binds = {}
        elems = _pat_elems(pat, where)
        pos = _match_elems(elems, args, 0, binds, where, items)
        if pos is not None and pos == len(args):
            return _transcribe(body, binds, where)
    raise ShapeError(f"{where}: no arm of {name}! matches")


# --------------------------------------------------------------------------------------
# Expression / statement parser.  AST nodes are tuples.
# --------------------------------------------------------------------------------------
#  ('lit', value, suffix|None)       ('bool', True|False)        ('str', text)
#  ('path', [seg, ...])              ('un', op, e)                ('bin', op, a, b)
#  ('cast', e, type)                 ('call', fn_expr, [args])    ('mcall', recv, name, [args])
#  ('field', e, name)                ('index', e, idx)            ('range', lo|None, hi|None, inclusive)
#  ('if', cond, block, else|None)    ('match', scrut, [(pat, guard|None, expr)])
#  ('block', [stmts], tail|None)     ('struct', name, [(field, e)])
#  ('array', [e])                    ('repeat', e, count)         ('tuple', [e])
#  ('ref', e)                        ('deref', e)                 ('try', e)
#  ('closure', [param names], body)  ('return', e|None)           ('assign', op, lhs, rhs)
#  ('macro', name, [tokens])         ('iflet', pat, e, block, else|None)
#  parsed but never translated: ('loop', block) ('while', cond, block) ('break', e) ('continue', None) ('unsafe', block)
# statements: ('let', pat, type|None, init|None)  ('expr', e)  ('for', pat, iter, block)
# patterns:   ('pwild',) ('pbind', name) ('plit', value) ('prange', lo, hi) ('ppath', [segs])
#             ('ptuple', [segs], [pats]) ('por', [pats]) ('pref', pat) ('pbindref', name, mutable)
# types:      ('ty', name, [args])  ('tref', type)  ('tarray', type, len expr)  ('tslice', type)
#             ('ttuple', [types])

BINPREC = [
    (["||"], 1), (["&&"], 2), (["==", "!=", "<", ">", "<=", ">="], 3), (["|"], 4), (["^"], 5), (["&"], 6),
    (["<<", ">>"], 7), (["+", "-"], 8), (["*", "/", "%"], 9),
]
PREC = {op: p for ops, p in BINPREC for op in ops}
ASSIGN_OPS = ["=", "+=", "-=", "*=", "/=", "%=", "^=", "&=", "|=", "<<=", ">>="]


class Parser:
    def __init__(self, toks, where, items=None, pos=0):
        self.t, self.where, self.items, self.i = toks, where, items, pos
        self.mt = match_table(toks, where)

    # -- helpers
    def peek(self, off=0):
        j = self.i + off
        return self.t[j] if j < len(self.t) else None

    def at_p(self, s, off=0):
        t = self.peek(off)
        return t is not None and t.k == "p" and t.s == s

    def at_id(self, s=None, off=0):
        t = self.peek(off)
        return t is not None and t.k == "id" and (s is None or t.s == s)

    def fail(self, msg):
        t = self.peek()
        near = " ".join(x.s for x in self.t[self.i:self.i + 6])
        raise ShapeError(f"{self.where}: {msg} (near `{near}`)")

    def eat_p(self, s):
        if not self.at_p(s):
            self.fail(f"`{s}` expected")
        self.i += 1

    def eat_id(self, s=None):
        if not self.at_id(s):
            self.fail(f"identifier {s or ''} expected")
        self.i += 1
        return self.t[self.i - 1].s

    def done(self):
        return self.i >= len(self.t)

    # -- types
    def type(self):
        if self.at_p("&"):
            self.i += 1
            if self.peek() and self.peek().k == "life":
                self.i += 1
            if self.at_id("mut"):
                self.i += 1
                return ("tref", self.type(), "mut")
            return ("tref", self.type())
        if self.at_p("&&"):
            self.i += 1
            return ("tref", ("tref", self.type()))
        if self.at_p("["):
            self.i += 1
            inner = self.type()
            if self.at_p(";"):
                self.i += 1
                ln = self.expr()
                self.eat_p("]")
                return ("tarray", inner, ln)
            self.eat_p("]")
            return ("tslice", inner)
        if self.at_p("("):
            self.i += 1
            parts = []
            while not self.at_p(")"):
                parts.append(self.type())
                if self.at_p(","):
                    self.i += 1
            self.eat_p(")")
            return ("ttuple", parts)
        if self.at_id():
            segs = [self.eat_id()]
            args = []
            while True:
                if self.at_p("::") and self.at_id(None, 1):
                    self.i += 1
                    segs.append(self.eat_id())
                    continue
                if self.at_p("<"):
                    self.i += 1
                    while not self.at_p(">") and not self.at_p(">>"):
                        if self.peek() and self.peek().k == "life":
                            self.i += 1
                            args.append(("tlife",))
                        else:
                            args.append(self.type())
                        if self.at_p(","):
                            self.i += 1
                    if self.at_p(">>"):
                        # split the token
                        tk = self.t[self.i]
                        self.t = self.t[:self.i] + [Tok("p", ">", tk.pos), Tok("p", ">", tk.pos)] + self.t[self.i + 1:]
                        self.mt = match_table(self.t, self.where)
                    self.eat_p(">")
                    continue
                break
            return ("ty", segs[-1] if len(segs) == 1 or segs[0] in ("core", "std", "crate", "super", "self") else "::".join(segs), args)
        self.fail("type expected")

    # -- patterns
    def pattern(self):
        alts = [self.pattern1()]
        while self.at_p("|"):
            self.i += 1
            alts.append(self.pattern1())
        return alts[0] if len(alts) == 1 else ("por", alts)

    def pattern1(self):
        if self.at_p("&"):
            self.i += 1
            if self.at_id("mut"):
                self.i += 1
            return ("pref", self.pattern1())
        if self.at_id("mut"):
            self.i += 1
            return ("pbind", self.eat_id())
        if self.at_id("ref"):
            self.i += 1
            mutable = False
            if self.at_id("mut"):
                self.i += 1
                mutable = True
            return ("pbindref", self.eat_id(), mutable)
        if self.at_id("_"):
            self.i += 1
            return ("pwild",)
        if self.at_p(".."):
            # the rest pattern inside a tuple / tuple-variant pattern: `Error::CrcError(..)`
            self.i += 1
            return ("prest",)
        t = self.peek()
        if t is not None and t.k == "int":
            self.i += 1
            lo = t.v
            if self.at_p("..="):
                self.i += 1
                hi = self.peek()
                if hi is None or hi.k != "int":
                    self.fail("integer expected after `..=` in pattern")
                self.i += 1
                return ("prange", lo, hi.v)
            if self.at_p("..") or self.at_p("..."):
                self.fail("half-open or `...` range patterns are outside the subset")
            return ("plit", lo)
        if self.at_p("("):
            self.i += 1
            parts = []
            while not self.at_p(")"):
                parts.append(self.pattern())
                if self.at_p(","):
                    self.i += 1
            self.eat_p(")")
            return ("ptuple", [], parts)
        if self.at_id():
            segs = [self.eat_id()]
            while self.at_p("::"):
                self.i += 1
                segs.append(self.eat_id())
            if self.at_p("("):
                self.i += 1
                parts = []
                while not self.at_p(")"):
                    parts.append(self.pattern())
                    if self.at_p(","):
                        self.i += 1
                self.eat_p(")")
                return ("ptuple", segs, parts)
            if self.at_p("{"):
                # `Enum::Variant { a, b: pat, .. }`
                self.i += 1
                fields = []
                while not self.at_p("}"):
                    if self.at_p(".."):
                        self.i += 1
                        continue
                    fname = self.eat_id()
                    if self.at_p(":"):
                        self.i += 1
                        fields.append((fname, self.pattern()))
                    else:
                        fields.append((fname, ("pbind", fname)))
                    if self.at_p(","):
                        self.i += 1
                self.eat_p("}")
                return ("pstruct", segs, fields)
            if len(segs) == 1 and (segs[0][0].islower() or segs[0][0] == "_"):
                return ("pbind", segs[0])
            return ("ppath", segs)
        self.fail("pattern expected")

    # -- expressions
    def expr(self, nostruct=False):
        return self.assign(nostruct)

    def assign(self, nostruct):
        lhs = self.range_(nostruct)
        t = self.peek()
        if t is not None and t.k == "p" and t.s in ASSIGN_OPS:
            self.i += 1
            rhs = self.assign(nostruct)
            return ("assign", t.s, lhs, rhs)
        return lhs

    def range_(self, nostruct):
        if self.at_p("..") or self.at_p("..="):
            inc = self.peek().s == "..="
            self.i += 1
            hi = None
            if self._starts_expr():
                hi = self.binary(0, nostruct)
            return ("range", None, hi, inc)
        lo = self.binary(0, nostruct)
        if self.at_p("..") or self.at_p("..="):
            inc = self.peek().s == "..="
            self.i += 1
            hi = None
            if self._starts_expr(nostruct):
                hi = self.binary(0, nostruct)
            return ("range", lo, hi, inc)
        return lo

    def _starts_expr(self, nostruct=False):
        t = self.peek()
        if t is None:
            return False
        if t.k in ("id", "int", "str", "char", "bstr"):
            return t.s not in ("as",)
        if t.k == "p":
            if t.s == "{":
                return not nostruct
            return t.s in ("(", "[", "-", "!", "*", "&", "|")
        return False

    def binary(self, minprec, nostruct):
        lhs = self.cast(nostruct)
        while True:
            t = self.peek()
            if t is None or t.k != "p" or t.s not in PREC:
                break
            p = PREC[t.s]
            if p < max(minprec, 1):
                break
            self.i += 1
            rhs = self.binary(p + 1, nostruct)
            if p == 3 and self.peek() is not None and self.peek().k == "p" and PREC.get(self.peek().s) == 3:
                self.fail("chained comparison")
            lhs = ("bin", t.s, lhs, rhs)
        return lhs

    def cast(self, nostruct):
        e = self.unary(nostruct)
        while self.at_id("as"):
            self.i += 1
            e = ("cast", e, self.type())
        return e

    def unary(self, nostruct):
        if self.at_p("-"):
            self.i += 1
            return ("un", "-", self.unary(nostruct))
        if self.at_p("!"):
            self.i += 1
            return ("un", "!", self.unary(nostruct))
        if self.at_p("*"):
            self.i += 1
            return ("deref", self.unary(nostruct))
        if self.at_p("&") or self.at_p("&&"):
            dbl = self.peek().s == "&&"
            self.i += 1
            mut = False
            if self.at_id("mut"):
                self.i += 1
                mut = True
            inner = self.unary(nostruct)
            e = ("ref", inner, "mut") if mut else ("ref", inner)
            return ("ref", e) if dbl else e
        return self.postfix(nostruct)

    def args(self):
        self.eat_p("(")
        out = []
        while not self.at_p(")"):
            out.append(self.expr())
            if self.at_p(","):
                self.i += 1
            elif not self.at_p(")"):
                self.fail("`,` or `)` expected in argument list")
        self.eat_p(")")
        return out

    def postfix(self, nostruct):
        e = self.primary(nostruct)
        while True:
            if self.at_p("?"):
                self.i += 1
                e = ("try", e)
            elif self.at_p("("):
                e = ("call", e, self.args())
            elif self.at_p("["):
                self.i += 1
                idx = self.expr()
                self.eat_p("]")
                e = ("index", e, idx)
            elif self.at_p("."):
                nx = self.peek(1)
                if nx is None:
                    self.fail("field expected")
                if nx.k == "int":
                    if nx.suf is not None:
                        self.fail("bad tuple field")
                    self.i += 2
                    e = ("field", e, str(nx.v))
                elif nx.k == "id":
                    if nx.s == "await":
                        self.fail("`.await` is outside the subset")
                    self.i += 2
                    if self.at_p("::"):
                        self.fail("turbofish is outside the subset")
                    if self.at_p("("):
                        e = ("mcall", e, nx.s, self.args())
                    else:
                        e = ("field", e, nx.s)
                else:
                    self.fail("field expected")
            else:
                break
        return e

    def block(self):
        self.eat_p("{")
        stmts, tail = [], None
        while not self.at_p("}"):
            if self.at_p(";"):
                self.i += 1
                continue
            if self.at_p("#"):
                self.i += 1
                if not self.at_p("["):
                    self.fail("attribute expected")
                self.i = self.mt[self.i] + 1
                continue
            if (self.at_id("enum") or self.at_id("impl")) and self.at_id(None, 1):
                # a nested item (registered by the item scanner): not a statement
                while not self.at_p("{"):
                    self.i += 1
                self.i = self.mt[self.i] + 1
                continue
            if self.at_id("const") and self.at_id(None, 1) and self.at_p(":", 2):
                self.i += 1
                cname = self.eat_id()
                self.eat_p(":")
                cty = self.type()
                self.eat_p("=")
                cinit = self.expr()
                self.eat_p(";")
                stmts.append(("const", cname, cty, cinit))
                continue
            if self.at_id("let"):
                self.i += 1
                pat = self.pattern()
                ty = None
                if self.at_p(":"):
                    self.i += 1
                    ty = self.type()
                init = None
                if self.at_p("="):
                    self.i += 1
                    init = self.expr()
                if self.at_id("else"):
                    self.fail("let-else is outside the subset")
                self.eat_p(";")
                stmts.append(("let", pat, ty, init))
                continue
            if self.at_id("for"):
                self.i += 1
                pat = self.pattern()
                self.eat_id("in")
                it = self.expr(nostruct=True)
                body = self.block()
                stmts.append(("for", pat, it, body))
                continue
            if self.at_id("loop"):
                self.i += 1
                stmts.append(("loop", self.block()))
                continue
            if self.at_id("while"):
                self.i += 1
                if self.at_id("let"):
                    # `while let P = e { body }` is `loop { if let P = e { body } else { break } }`
                    self.i += 1
                    wpat = self.pattern()
                    self.eat_p("=")
                    wexpr = self.expr(nostruct=True)
                    wbody = self.block()
                    stmts.append(("loop", ("block", [("expr", ("iflet", wpat, wexpr, wbody,
                                                               ("block", [("expr", ("break", None))], None)))], None)))
                    continue
                cond = self.expr(nostruct=True)
                stmts.append(("while", cond, self.block()))
                continue
            e = self.expr()
            blocklike = e[0] in ("if", "match", "block", "iflet", "unsafe", "loop")
            if self.at_p(";"):
                self.i += 1
                stmts.append(("expr", e))
            elif self.at_p("}"):
                tail = e
            elif blocklike:
                stmts.append(("expr", e))
            else:
                self.fail("`;` or `}` expected after expression")
        self.eat_p("}")
        return ("block", stmts, tail)

    def primary(self, nostruct):
        t = self.peek()
        if t is None:
            self.fail("expression expected")
        if t.k == "int":
            self.i += 1
            return ("lit", t.v, t.suf)
        if t.k == "str":
            self.i += 1
            return ("str", t.v)
        if t.k == "bstr" and t.s.startswith('b"'):
            self.i += 1
            body, out, j = t.s[2:-1], [], 0
            while j < len(body):
                if body[j] == "\\":
                    if body[j + 1] == "x":
                        out.append(int(body[j + 2:j + 4], 16))
                        j += 4
                    else:
                        table = {"n": 10, "r": 13, "t": 9, "0": 0, "\\": 92, "'": 39, '"': 34}
                        if body[j + 1] not in table:
                            self.fail(f"unknown escape in byte string")
                        out.append(table[body[j + 1]])
                        j += 2
                else:
                    if ord(body[j]) > 127:
                        self.fail("non-ASCII character in a byte string")
                    out.append(ord(body[j]))
                    j += 1
            return ("bytestr", out)
        if t.k in ("char", "bstr"):
            self.fail("char / raw byte-string literals are outside the subset")
        if t.k == "p" and t.s == "(":
            self.i += 1
            if self.at_p(")"):
                self.i += 1
                return ("tuple", [])
            e = self.expr()
            if self.at_p(","):
                parts = [e]
                while self.at_p(","):
                    self.i += 1
                    if self.at_p(")"):
                        break
                    parts.append(self.expr())
                self.eat_p(")")
                return ("tuple", parts)
            self.eat_p(")")
            return e
        if t.k == "p" and t.s == "[":
            self.i += 1
            if self.at_p("]"):
                self.i += 1
                return ("array", [])
            e = self.expr()
            if self.at_p(";"):
                self.i += 1
                cnt = self.expr()
                self.eat_p("]")
                return ("repeat", e, cnt)
            parts = [e]
            while self.at_p(","):
                self.i += 1
                if self.at_p("]"):
                    break
                parts.append(self.expr())
            self.eat_p("]")
            return ("array", parts)
        if t.k == "p" and t.s == "{":
            return self.block()
        if t.k == "p" and (t.s == "|" or t.s == "||"):
            params = []
            if t.s == "||":
                self.i += 1
            else:
                self.i += 1
                while not self.at_p("|"):
                    pat = self.pattern1()
                    if pat[0] not in ("pbind", "pwild"):
                        self.fail("closure parameter patterns are outside the subset")
                    params.append(pat[1] if pat[0] == "pbind" else "_")
                    if self.at_p(":"):
                        self.i += 1
                        self.type()
                    if self.at_p(","):
                        self.i += 1
                self.eat_p("|")
            body = self.expr()
            return ("closure", params, body)
        if t.k == "id":
            if t.s == "if":
                self.i += 1
                if self.at_id("let"):
                    self.i += 1
                    pat = self.pattern()
                    self.eat_p("=")
                    scrut = self.expr(nostruct=True)
                    blk = self.block()
                    els = None
                    if self.at_id("else"):
                        self.i += 1
                        els = self.primary(False) if self.at_id("if") else self.block()
                    return ("iflet", pat, scrut, blk, els)
                cond = self.expr(nostruct=True)
                blk = self.block()
                els = None
                if self.at_id("else"):
                    self.i += 1
                    els = self.primary(False) if self.at_id("if") else self.block()
                return ("if", cond, blk, els)
            if t.s == "match":
                self.i += 1
                scrut = self.expr(nostruct=True)
                self.eat_p("{")
                arms = []
                while not self.at_p("}"):
                    pat = self.pattern()
                    guard = None
                    if self.at_id("if"):
                        self.i += 1
                        guard = self.expr(nostruct=True)
                    self.eat_p("=>")
                    # an arm whose body is a block ends at its `}` (no call / field / `?` may follow it)
                    body = self.block() if self.at_p("{") else self.expr()
                    if self.at_p(","):
                        self.i += 1
                    elif not self.at_p("}") and body[0] not in ("block", "if", "match"):
                        self.fail("`,` expected after match arm")
                    arms.append((pat, guard, body))
                self.eat_p("}")
                return ("match", scrut, arms)
            if t.s == "return":
                self.i += 1
                if self.at_p(";") or self.at_p("}") or self.at_p(",") or self.done():
                    return ("return", None)
                return ("return", self.expr())
            if t.s in ("true", "false"):
                self.i += 1
                return ("bool", t.s == "true")
            if t.s in ("break", "continue"):
                self.i += 1
                if t.s == "break" and self._starts_expr(nostruct) :
                    return ("break", self.expr(nostruct))
                return (t.s, None)
            if t.s == "loop":
                self.i += 1
                return ("loop", self.block())
            if t.s == "unsafe":
                self.i += 1
                return ("unsafe", self.block())
            if t.s in ("while", "for", "async", "move", "let"):
                self.fail(f"`{t.s}` in expression position is outside the subset")
            # path
            segs = [self.eat_id()]
            while True:
                if self.at_p("::") and self.at_id(None, 1):
                    self.i += 1
                    segs.append(self.eat_id())
                    continue
                if self.at_p("::") and self.at_p("<", 1):
                    self.fail("turbofish is outside the subset")
                break
            if self.at_p("!") and (self.at_p("(", 1) or self.at_p("[", 1) or self.at_p("{", 1)) and len(segs) == 1:
                j = self.i + 1
                inner = self.t[j + 1:self.mt[j]]
                self.i = self.mt[j] + 1
                if self.items is not None and segs[0] in self.items.macros and \
                        segs[0] not in ("trace", "debug", "warn", "info", "error"):
                    out = expand_macro(self.items, segs[0], inner, f"{self.where}: {segs[0]}!")
                    p = Parser(out, f"{self.where}: {segs[0]}!", self.items)
                    e = p.expr()
                    if not p.done():
                        p.fail("macro expansion is not a single expression")
                    return e
                if segs[0] == "assert":
                    parts = split_commas(inner, self.where)
                    cond = parse_expr(parts[0], f"{self.where}: assert!", self.items)
                    return ("assert", cond, stringify(parts[0]))
                return ("macro", segs[0], inner)
            if self.at_p("{") and not nostruct and segs[-1][0].isupper() and self._looks_like_struct_lit():
                self.i += 1
                fields = []
                while not self.at_p("}"):
                    if self.at_p(".."):
                        self.fail("struct update syntax is outside the subset")
                    fname = self.eat_id()
                    if self.at_p(":"):
                        self.i += 1
                        fields.append((fname, self.expr()))
                    else:
                        fields.append((fname, ("path", [fname])))
                    if self.at_p(","):
                        self.i += 1
                self.eat_p("}")
                if len(segs) >= 2 and self.items is not None and segs[-2] in self.items.enums:
                    return ("struct", segs[-2] + "::" + segs[-1], fields)
                return ("struct", segs[-1], fields)
            return ("path", segs)
        self.fail("expression expected")

    def _looks_like_struct_lit(self):
        # `{ }`, `{ ident :` or `{ ident ,` / `{ ident }`
        a, b = self.peek(1), self.peek(2)
        if a is None:
            return False
        if a.k == "p" and a.s == "}":
            return True
        if a.k == "id" and b is not None and b.k == "p" and b.s in (":", ",", "}"):
            return True
        return False


def stringify(toks):
    """the text rustc's `stringify!` gives for an expression (used in `assert!` messages)"""
    out = ""
    tight_before = {".", ",", ";", ")", "]", "?", "(", "["}
    tight_after = {".", "(", "[", "!", "&"}
    prev = None
    for t in toks:
        if prev is None:
            out += t.s
        elif t.s in tight_before and not (t.s in ("(", "[") and prev.k == "p" and prev.s not in (")", "]")):
            out += t.s
        elif prev.s in tight_after and prev.k == "p":
            out += t.s
        else:
            out += " " + t.s
        prev = t
    return out


def parse_fn_body(decl, items):
    toks = [Tok("p", "{", 0)] + list(decl.body) + [Tok("p", "}", 0)]
    p = Parser(toks, f"{decl.where}: fn {decl.name}", items)
    blk = p.block()
    if not p.done():
        p.fail("trailing tokens after the function body")
    return blk


def parse_params(decl, items):
    """-> (self_kind or None, [(name, type)])"""
    out, self_kind = [], None
    where = f"{decl.where}: fn {decl.name}"
    for part in split_commas(decl.params, where):
        if not part:
            continue
        txt = [t.s for t in part]
        if txt[-1] == "self" and all(x in ("&", "mut", "self") or x.startswith("'") for x in txt):
            self_kind = "".join(txt)
            continue
        p = Parser(part, where, items)
        pat = p.pattern1()
        if pat[0] not in ("pbind", "pwild"):
            raise ShapeError(f"{where}: parameter pattern is outside the subset")
        p.eat_p(":")
        ty = p.type()
        if not p.done():
            p.fail("trailing tokens in parameter")
        out.append((pat[1] if pat[0] == "pbind" else "_", ty))
    return self_kind, out


def parse_type(toks, where, items=None):
    p = Parser(list(toks), where, items)
    ty = p.type()
    if not p.done():
        p.fail("trailing tokens in type")
    return ty


def parse_expr(toks, where, items=None):
    p = Parser(list(toks), where, items)
    e = p.expr()
    if not p.done():
        p.fail("trailing tokens in expression")
    return e
