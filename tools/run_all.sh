#!/bin/bash
# run every claimed check (quick tier by default) and summarise; usage: tools/run_all.sh [quick|thorough]
cd /verif
tier=${1:-quick}
for c in $(cat tools/claimed.txt); do
  s=$(date +%s)
  out=$(./check $c --tier $tier 2>&1); rc=$?
  echo "$c rc=$rc $(( $(date +%s) - s ))s $(echo "$out" | grep -E '^VIOLATION|^KNOWN' | cut -c1-120 | tr '\n' ';')"
done
