#!/usr/bin/env python3
"""SD-card level of the Rust -> Lean translator: the methods of `SdCardInner` and of `Delay`
(sdcard/mod.rs), translated whole into the model's `S σ` monad over `St σ` / `BusOps σ` (Model/Sd.lean) and
written to `Sdmmc/Gen/FunsSd.lean`.

Built on tools/rustfront.py (syntax) and tools/translate.py (`Full`: typed translation of pure expressions
and of pure callees); both are imported as libraries and not modified.  The statement level (binds, `?`,
outcomes held in variables, loops, out-parameters) is this file's own.  The conventions and the additions
to the trusted base are documented in LEAN_HEADER_SD below (copied into the generated file).  What is
outside the subset raises ShapeError (exit status 3 in extract.py, the message names the function).
"""
import re
from rustfront import ShapeError, Items, parse_fn_body, parse_params, parse_type
import translate
from translate import Full, V, Ctx, lname, atom, free_names, assigned_names, LOG_MACROS, _balanced

SD_FILES = ["structure.rs", "blockdevice.rs", "sdcard/proto.rs", "sdcard/mod.rs"]

# --------------------------------------------------------------------------------------
# The state map (trusted): `self` of SdCardInner is the model's `St σ`
# --------------------------------------------------------------------------------------
STATE_IMPL = "SdCardInner"
# fields read freshly from the state (`S.get`) where they are used
STATE_FIELDS = {"card_type": ("cardType", ("option", ("xenum", "CardType")))}
# `self.options.<f>`: never assigned anywhere (checked), read once when the function starts
OPTION_FIELDS = {"use_crc": ("useCrc", ("bool",)), "acquire_retries": ("acquireRetries", ("int", 32))}
# fields that are the bus: they appear only as receivers of the calls below / as `&mut self.delayer`
BUS_FIELDS = ("spi", "delayer")
# Rust enums that are enums of the model
XENUM = {"CardType": "CardType", "Error": "SdErr"}
# single-field structs that are their field
COLLAPSE = {"Delay": "retries_left", "Block": "contents", "CsdV1": "data", "CsdV2": "data"}
# `SpiDevice` methods: Rust name -> (Lean primitive, index of the `&mut` buffer that receives MISO or None)
SPI_CALLS = {"transfer": ("spiTransfer", 0, 2), "write": ("spiWrite", None, 1),
             "transfer_in_place": ("spiTransferInPlace", 0, 1)}
# ghost event tags (instrumentation only: `Tag.event`): functions that take the tag as a parameter ..
TAGGED_FNS = ("transfer_byte", "write_bytes")
# .. the tag each caller passes ..
CALL_TAGS = {("read_byte", "transfer_byte"): "Tag.poll", ("write_byte", "transfer_byte"): "Tag.byte",
             ("card_command", "write_bytes"): "Tag.cmd", ("write_data", "write_bytes"): "Tag.dataOut"}
# .. and the tag of the SPI calls of functions that are not tagged
FIXED_TAGS = {"transfer_bytes": "Tag.dataIn"}
# pure callees that Gen/Funs.lean already holds (tools/translate.py FUNCTIONS): referred to as `Funs.<name>`
EXTERN_PURE = set(translate.FUNCTIONS)

TARGETS = [("Delay", "new"), ("Delay", "new_read"), ("Delay", "new_write"), ("Delay", "new_command"),
           ("Delay", "delay"),
           ("SdCardInner", "transfer_byte"), ("SdCardInner", "read_byte"), ("SdCardInner", "write_byte"),
           ("SdCardInner", "write_bytes"), ("SdCardInner", "transfer_bytes"), ("SdCardInner", "wait_not_busy"),
           ("SdCardInner", "card_command"), ("SdCardInner", "card_acmd"),
           ("SdCardInner", "read_data"), ("SdCardInner", "write_data"),
           ("SdCardInner", "read"), ("SdCardInner", "write"),
           ("SdCardInner", "read_csd"), ("SdCardInner", "num_blocks"), ("SdCardInner", "num_bytes"),
           ("SdCardInner", "acquire"), ("SdCardInner", "check_init"),
           ("SdCard", "mark_card_uninit")]

PANIC_FUEL = "loop fuel exhausted"


def simple(s):
    return bool(re.match(r"^[A-Za-z0-9_.']+$", s))


def par(s):
    s = s.strip()
    return s if simple(s) or (s.startswith("(") and s.endswith(")") and _balanced(s[1:-1])) else f"({s})"


def bind(m, pat, rest):
    return f"({m} >>= fun {pat} =>\n{rest})"


def let_(name, val, rest):
    return f"(let {name} := {val};\n{rest})"


def tup(parts):
    if not parts:
        return "()"
    if len(parts) == 1:
        return parts[0]
    return "(" + ", ".join(parts) + ")"


def has_jump(node, kinds=("break", "continue")):
    """a break / continue that belongs to the enclosing loop (nested loops and closures excluded)"""
    if isinstance(node, tuple):
        if node and node[0] in kinds:
            return True
        if node and node[0] in ("closure", "loop", "while", "for"):
            return False
        return any(has_jump(x, kinds) for x in node)
    if isinstance(node, list):
        return any(has_jump(x, kinds) for x in node)
    return False


def is_ok_ctor(e):
    return e[0] == "call" and e[1] == ("path", ["Ok"]) and len(e[2]) == 1


def is_err_ctor(e):
    return e[0] == "call" and e[1] == ("path", ["Err"]) and len(e[2]) == 1


def has_return_ok(node):
    """`return <something that is not Err(..)>` (closures excluded)"""
    if isinstance(node, tuple):
        if node and node[0] == "return":
            return node[1] is None or not is_err_ctor(node[1])
        if node and node[0] == "closure":
            return False
        return any(has_return_ok(x) for x in node)
    if isinstance(node, list):
        return any(has_return_ok(x) for x in node)
    return False


def strip_logs(node):
    """the tree without logging macro statements (their arguments are not uses)"""
    if isinstance(node, tuple):
        if node and node[0] == "block":
            stmts = [strip_logs(s) for s in node[1] if not (s[0] == "expr" and s[1][0] == "macro" and s[1][1] in LOG_MACROS)]
            return ("block", stmts, strip_logs(node[2]) if node[2] is not None else None)
        return tuple(strip_logs(x) for x in node)
    if isinstance(node, list):
        return [strip_logs(x) for x in node]
    return node


class NeedMonad(ShapeError):
    """a pure rendering is not possible (a check inside an arm); the caller renders the expression in the monad"""


class SInfo:
    def __init__(self, name):
        self.name = name
        self.params = []       # [(lean name, lean type text)] after `B`
        self.ptypes = []       # translator types of the Rust parameters that became Lean parameters
        self.pkinds = []       # per Rust parameter: 'val' | 'out' | 'bus'
        self.okty = ("unit",)  # Rust success type
        self.outs = []         # [(rust name, type)] `&mut` parameters handed back
        self.selfout = []      # [(field, type)] fields of a `&mut self` value struct handed back
        self.fallible = True
        self.tagged = False
        self.body = None
        self.aux = []          # loop definitions (text), before the function
        self.doc = ""
        self.rty = None        # Lean type text of the result


class SCtx(Ctx):
    def __init__(self, what, impl, fname):
        super().__init__(what, impl)
        self.fname = fname
        self.aliases = set()       # names that are `self` of SdCardInner
        self.selfvals = None       # field -> (lean, ty) when self is a value struct
        self.used_st = False       # the expression just translated read a fresh state field
        self.used_opts = False
        self.info = None
        self.loop = None
        self.retk = None           # V or None -> text: the function's successful end
        self.fn_lean_params = []   # [(lean, type text)] of the function (for loop definitions)
        self.nloops = 0
        self.tag = None            # the tag of SPI calls in this function


class Sd(Full):
    ERR_ENUM = "Error"    # the Rust enum of the errors the monad can fail with

    def __init__(self, items):
        super().__init__(items)
        self.sdone = {}
        self.sorder = []
        self.s_in_progress = set()
        self.check_options_immutable()

    # ================================================================== types
    def conv_type(self, ty, what, impl=None):
        k = ty[0]
        if k in ("tarray", "tslice") and ty[1][0] == "ty" and ty[1][1] == "Block":
            return ("blocks",)
        if k == "ty":
            name = ty[1]
            if name == "Self" and impl is not None:
                name = impl
            if name in XENUM:
                return ("xenum", name)
            if name in COLLAPSE:
                return self.collapsed(name, what)
        return super().conv_type(ty, what, impl)

    def collapsed(self, name, what):
        kind, fields = self.items.structs.get(name, (None, None))
        if kind != "named" or len(fields) != 1 or fields[0][0] != COLLAPSE[name]:
            raise ShapeError(f"{what}: struct {name} is no longer the single field `{COLLAPSE[name]}`")
        fty = self.conv_type(parse_type(fields[0][1], f"{what}: struct {name}", self.items), what, name)
        return ("cs", name, fty)

    def res(self, t):
        return super().res(t)

    def lean_type(self, t, what):
        t = self.res(t)
        if t[0] == "xenum":
            return XENUM[t[1]]
        if t[0] == "cs":
            return self.lean_type(t[2], what)
        if t[0] == "blocks":
            return "List (List UInt8)"
        if t[0] == "sres":
            inner = self.lean_type(t[1], what)
            return f"SRes ({inner})" if " " in inner else f"SRes {inner}"
        return super().lean_type(t, what)

    def show(self, t):
        t = self.res(t)
        if t[0] in ("xenum", "cs"):
            return t[1]
        if t[0] == "blocks":
            return "[Block]"
        if t[0] == "sres":
            return f"outcome<{self.show(t[1])}>"
        return super().show(t)

    def unify(self, a, b, what):
        a, b = self.res(a), self.res(b)
        if a[0] == "sres" and b[0] == "sres":
            return ("sres", self.unify(a[1], b[1], what))
        if a[0] == "cs" and b[0] == "cs" and a[1] == b[1]:
            return a
        return super().unify(a, b, what)

    def check_options_immutable(self):
        for key, decl in self.items.fns.items():
            if decl.where != "sdcard/mod.rs":
                continue
            body = parse_fn_body(decl, self.items)

            def walk(n):
                if isinstance(n, tuple):
                    if n and n[0] == "assign":
                        lhs = n[2]
                        chain = []
                        while lhs[0] in ("field", "index", "deref"):
                            if lhs[0] == "field":
                                chain.append(lhs[2])
                            lhs = lhs[1]
                        if "options" in chain:
                            raise ShapeError(f"sdcard/mod.rs: fn {decl.name}: `options` is assigned; the state map reads "
                                             f"it once per function")
                    for x in n:
                        walk(x)
                elif isinstance(n, list):
                    for x in n:
                        walk(x)
            walk(body)

    # ================================================================== pure expressions
    def is_self(self, e, ctx):
        return e[0] == "path" and len(e[1]) == 1 and e[1][0] in getattr(ctx, "aliases", ())

    def tr_field(self, e, env, ctx):
        _, base, name = e
        if self.is_self(base, ctx):
            if name in STATE_FIELDS:
                ctx.used_st = True
                lf, ty = STATE_FIELDS[name]
                return V(f"st.{lf}", ty)
            raise ShapeError(f"{ctx.what}: field `self.{name}` used as a value has no place in the model's state")
        if base[0] == "field" and self.is_self(base[1], ctx) and base[2] == "options":
            if name not in OPTION_FIELDS:
                raise ShapeError(f"{ctx.what}: `options.{name}` has no place in the model's state")
            ctx.used_opts = True
            lf, ty = OPTION_FIELDS[name]
            return V(f"st0.{lf}", ty)
        if base == ("path", ["self"]) and getattr(ctx, "selfvals", None) is not None:
            if name not in ctx.selfvals:
                raise ShapeError(f"{ctx.what}: no field {name} on self")
            b = env["self_" + name]
            return V(b[1], b[2])
        if base == ("path", ["self"]):
            return super().tr_field(e, env, ctx)
        v = self.tr(base, env, ctx)
        t = self.res(v.ty)
        if t[0] == "cs":
            if name != COLLAPSE[t[1]]:
                raise ShapeError(f"{ctx.what}: {t[1]} has the single field `{COLLAPSE[t[1]]}`")
            return V(v.lean, t[2], v.ok)
        return super().tr_field(e, env, ctx)

    def tr_path(self, e, env, ctx):
        segs = e[1]
        if len(segs) == 1 and segs[0] in env:
            b = env[segs[0]]
            if b[0] == "res":
                return V(b[1], ("sres", b[2]))
            if b[0] == "uninit":
                raise ShapeError(f"{ctx.what}: `{segs[0]}` is read before it is assigned on this path")
            if b[0] == "elem":
                return V(f"(getBlock {b[1]} {b[2]})", b[3])
            if b[0] in ("bus", "closure"):
                raise ShapeError(f"{ctx.what}: `{segs[0]}` is used as a value (outside the subset)")
            if b[0] == "dead":
                raise ShapeError(f"{ctx.what}: internal: `{segs[0]}` was taken to be dead after its loop")
        if len(segs) >= 2 and segs[-2] in XENUM:
            en = segs[-2]
            for vname, payload in self.items.enums[en]:
                if vname == segs[-1]:
                    if payload:
                        raise ShapeError(f"{ctx.what}: {en}::{vname} needs arguments")
                    return V(f"{XENUM[en]}.{vname}", ("xenum", en))
            raise ShapeError(f"{ctx.what}: enum {en} has no variant {segs[-1]}")
        return super().tr_path(e, env, ctx)

    def tr_struct(self, e, env, ctx):
        _, sname, fields = e
        if sname == "Self":
            sname = ctx.impl
        if sname in COLLAPSE:
            ct = self.collapsed(sname, ctx.what)
            if len(fields) != 1 or fields[0][0] != COLLAPSE[sname]:
                raise ShapeError(f"{ctx.what}: struct literal {sname} must give exactly `{COLLAPSE[sname]}`")
            v = self.tr(fields[0][1], env, ctx)
            self.unify(v.ty, ct[2], ctx.what)
            return V(v.lean, ct, v.ok, v.const)
        return super().tr_struct(e, env, ctx)

    def tr_index(self, e, env, ctx):
        _, base, idx = e
        if idx[0] != "range":
            b = self.tr(base, env, ctx)
            if self.res(b.ty) == ("blocks",):
                i = self.tr(idx, env, ctx)
                self.unify(i.ty, ("usize",), ctx.what)
                ok = translate.conj(b.ok, i.ok, f"({i.lean} < {b.lean}.length)")
                return V(f"(getBlock {b.lean} {i.lean})", self.collapsed("Block", ctx.what), ok)
        return super().tr_index(e, env, ctx)

    def translate_fn(self, key, caller=None):
        """pure crate functions: the ones Gen/Funs.lean already holds are referred to, the others translated here"""
        if key in EXTERN_PURE:
            if not hasattr(self, "_extern"):
                self._extern = Full(self.items)
                self._extinfo = {}
            if key not in self._extinfo:
                info = self._extern.translate_fn(key)
                ext = translate.FnInfo("Funs." + info.name)
                ext.params, ext.ret, ext.okbody = info.params, info.ret, info.okbody
                ext.self_fields, ext.self_nt = info.self_fields, info.self_nt
                self._extinfo[key] = ext
            return self._extinfo[key]
        return super().translate_fn(key, caller)

    def pure_callee(self, key, ctx):
        return self.translate_fn(key)

    def tr_call(self, e, env, ctx):
        _, f, args = e
        if f[0] == "path":
            segs = f[1]
            name, tyname = segs[-1], (segs[-2] if len(segs) >= 2 else None)
            if tyname == "Self":
                tyname = ctx.impl
            if tyname in XENUM:
                en = tyname
                for vname, payload in self.items.enums[en]:
                    if vname == name and payload and len(payload) == len(args):
                        vs = [self.tr(a, env, ctx) for a in args]
                        for v, p in zip(vs, payload):
                            self.unify(v.ty, self.conv_type(parse_type(p, ctx.what, self.items), ctx.what), ctx.what)
                        return V(f"({XENUM[en]}.{name} " + " ".join(self.arg(v, ctx) for v in vs) + ")", ("xenum", en),
                                 translate.conj(*[v.ok for v in vs]))
                raise ShapeError(f"{ctx.what}: {en}::{name}(..) is not a variant with {len(args)} argument(s)")
            if tyname in COLLAPSE and name == "default" and not args and (tyname, "default") not in self.items.fns:
                ct = self.collapsed(tyname, ctx.what)
                ft = self.res(ct[2])
                if ft[0] == "bytes" and ft[1] is not None:
                    # `#[derive(Default)]` on a struct whose single field is a byte array
                    return V(f"(List.replicate {ft[1]} (UInt8.ofNat 0))", ct)
                raise ShapeError(f"{ctx.what}: {tyname}::default() is outside the subset")
            if tyname in ("u16", "u32") and name == "from_be_bytes" and len(args) == 1:
                b = self.tr(args[0], env, ctx)
                n = translate.INT_W[tyname] // 8
                self.unify(b.ty, ("bytes", n), ctx.what)
                x = self.arg(b, ctx)
                terms = [f"rdByte {x} {i}" + (f" * {256 ** (n - 1 - i)}" if i < n - 1 else "") for i in range(n)]
                return V("(" + " + ".join(terms) + ")", ("int", 8 * n), b.ok)
            if tyname is None and name == "Ok" and len(args) == 1:
                v = self.tr(args[0], env, ctx)
                return V(f"(SRes.ok {self.arg(v, ctx)})", ("sres", v.ty), v.ok)
            if tyname is None and name == "Err" and len(args) == 1:
                v = self.tr(args[0], env, ctx)
                self.unify(v.ty, ("xenum", self.ERR_ENUM), ctx.what)
                return V(f"(SRes.err {self.arg(v, ctx)})", ("sres", self.fresh_any()), v.ok)
        return super().tr_call(e, env, ctx)

    def tr_mcall(self, e, env, ctx):
        _, recv, name, args = e
        # outcomes held in variables
        if recv[0] == "path" and len(recv[1]) == 1 and recv[1][0] in env and env[recv[1][0]][0] == "res":
            rv = self.tr(recv, env, ctx)
            return self.res_method(rv, name, args, env, ctx)
        if recv[0] == "mcall" and recv[2] in ("map", "and") :
            rv = self.tr(recv, env, ctx)
            if self.res(rv.ty)[0] == "sres":
                return self.res_method(rv, name, args, env, ctx)
        if self.is_self(recv, ctx) or recv == ("path", ["self"]):
            raise ShapeError(f"{ctx.what}: the call self.{name}(..) is used inside a pure expression (outside the subset)")
        v = self.tr(recv, env, ctx)
        t = self.res(v.ty)
        if t[0] == "sres":
            return self.res_method(v, name, args, env, ctx)
        if t == ("blocks",) and name == "len" and not args:
            return V(f"{v.lean}.length" if atom(v.lean) else f"({v.lean}).length", ("usize",), v.ok)
        if t[0] == "bytes" and name == "fill":
            raise ShapeError(f"{ctx.what}: `.fill(..)` is a statement")
        if t[0] == "int" and name == "to_be_bytes" and not args:
            n = t[1] // 8
            x = v.lean
            parts = [f"UInt8.ofNat ({x} / {256 ** k} % 256)" for k in range(n - 1, 0, -1)] + [f"UInt8.ofNat ({x} % 256)"]
            return V("[" + ", ".join(parts) + "]", ("bytes", n), v.ok)
        if t[0] == "cs":
            key = (t[1], name)
            if key not in self.items.fns:
                raise ShapeError(f"{ctx.what}: method {t[1]}::{name} not found in the scanned files")
            sk, _ps = parse_params(self.items.fns[key], self.items)
            if sk is not None and "mut" in sk:
                raise ShapeError(f"{ctx.what}: the `&mut self` method {t[1]}::{name} is used inside a pure expression")
            info = self.pure_callee(key, ctx)
            vs = [self.tr(a, env, ctx) for a in args]
            if info.self_fields != [COLLAPSE[t[1]]] and info.self_fields != []:
                raise ShapeError(f"{ctx.what}: {t[1]}::{name} reads fields other than `{COLLAPSE[t[1]]}`")
            actual = ([self.arg(v, ctx)] if info.self_fields else []) + [self.arg(x, ctx) for x in vs]
            for x, (pn, pt) in zip(vs, info.params[len(info.self_fields):]):
                self.unify(x.ty, pt, ctx.what)
            # the callee's own side conditions (`_ok`) are the subject of Props/C12Gen, not enforced here
            ok = translate.conj(v.ok, *[x.ok for x in vs])
            return V(f"({info.name}" + "".join(" " + a for a in actual) + ")", info.ret, ok)
        return super().tr_mcall(e, env, ctx)

    def res_method(self, rv, name, args, env, ctx):
        t = self.res(rv.ty)
        if name in ("is_err", "is_ok") and not args:
            return V(f"(SRes.isErr {self.arg(rv, ctx)} = {'true' if name == 'is_err' else 'false'})", ("bool",), rv.ok, None, True)
        if name == "map" and len(args) == 1 and args[0][0] == "closure" and len(args[0][1]) == 1:
            pn = args[0][1][0]
            env2 = dict(env)
            if pn != "_":
                env2[pn] = ("val", lname(pn), t[1])
            body = self.tr(args[0][2], env2, ctx)
            if body.ok is not None:
                raise ShapeError(f"{ctx.what}: arithmetic inside `.map(..)` on an outcome is outside the subset")
            return V(f"(SRes.map (fun {lname(pn) if pn != '_' else '_'} => {self.value(body, ctx)}) {self.arg(rv, ctx)})",
                     ("sres", body.ty), rv.ok)
        if name == "and" and len(args) == 1:
            o = self.tr(args[0], env, ctx)
            ot = self.res(o.ty)
            if ot[0] != "sres":
                raise ShapeError(f"{ctx.what}: `.and(..)` of something that is not an outcome")
            return V(f"(SRes.and {self.arg(rv, ctx)} {self.arg(o, ctx)})", ot, translate.conj(rv.ok, o.ok))
        raise ShapeError(f"{ctx.what}: method `.{name}` on an outcome is outside the subset")

    def tr_match(self, e, env, ctx, leaf=None):
        """pure `match` as a Lean `match` (patterns as patterns)"""
        _, scrut, arms = e
        sv = self.tr(scrut, env, ctx)
        pieces, rty, oks = [], None, []
        for pat, guard, body in arms:
            if guard is not None:
                raise ShapeError(f"{ctx.what}: match guards are outside the subset")
            for lp, env2 in self.lean_pats(pat, sv.ty, env, ctx):
                bv = (leaf or self.tr)(body, env2, ctx)
                rty = bv.ty if rty is None else self.unify(rty, bv.ty, ctx.what)
                if bv.ok is not None:
                    raise NeedMonad(f"{ctx.what}: arithmetic that can overflow inside a pure `match` arm")
                pieces.append(f"| {lp} => {self.value(bv, ctx)}")
        return V(f"(match {sv.lean} with " + " ".join(pieces) + ")", rty, sv.ok)

    # ------------------------------------------------------------------ patterns
    def lean_pats(self, pat, ty, env, ctx):
        """-> [(Lean pattern text, env with the bindings)] (one entry per `|` alternative)"""
        ty = self.res(ty)
        k = pat[0]
        if k == "pref":
            return self.lean_pats(pat[1], ty, env, ctx)
        if k == "pwild":
            return [("_", dict(env))]
        if k in ("pbind", "pbindref"):
            self.check_local(pat[1], ctx)
            env2 = dict(env)
            if ty[0] == "sres":
                env2[pat[1]] = ("res", lname(pat[1]), ty[1])
            else:
                env2[pat[1]] = ("val", lname(pat[1]), ty)
            return [(lname(pat[1]), env2)]
        if k == "plit":
            if not self.is_int(ty):
                raise ShapeError(f"{ctx.what}: integer pattern against {self.show(ty)}")
            return [(str(pat[1]), dict(env))]
        if k == "por":
            out = []
            for q in pat[1]:
                r = self.lean_pats(q, ty, env, ctx)
                for lp, env2 in r:
                    if set(env2) != set(env):
                        raise ShapeError(f"{ctx.what}: `|` pattern with bindings is outside the subset")
                out += r
            return out
        if k == "ppath":
            segs = pat[1]
            if segs == ["None"] and ty[0] == "option":
                return [("none", dict(env))]
            if ty[0] == "xenum" and len(segs) >= 2 and segs[-2] == ty[1]:
                v = self.tr_path(("path", segs), {}, ctx)
                return [(v.lean, dict(env))]
            if self.is_int(ty):
                v = self.tr_path(("path", segs), {}, ctx)
                if v.const is None:
                    raise ShapeError(f"{ctx.what}: constant pattern expected")
                self.unify(v.ty, ty, ctx.what)
                return [(str(v.const), dict(env))]
            raise ShapeError(f"{ctx.what}: pattern `{'::'.join(segs)}` against {self.show(ty)} is outside the subset")
        if k == "ptuple":
            segs, subs = pat[1], pat[2]
            if segs in (["Some"], ["Ok"], ["Err"]) and len(subs) == 1:
                if segs == ["Some"] and ty[0] == "option":
                    ctor, inner = "some", ty[1]
                elif segs == ["Ok"] and ty[0] == "sres":
                    ctor, inner = "SRes.ok", ty[1]
                elif segs == ["Err"] and ty[0] == "sres":
                    ctor, inner = "SRes.err", ("xenum", self.ERR_ENUM)
                else:
                    raise ShapeError(f"{ctx.what}: pattern {segs[0]}(..) against {self.show(ty)}")
                return [(f"{ctor} {par(lp)}" if not simple(lp) else f"{ctor} {lp}", env2)
                        for lp, env2 in self.lean_pats(subs[0], inner, env, ctx)]
            if ty[0] == "xenum" and len(segs) >= 2 and segs[-2] == ty[1]:
                for vname, payload in self.items.enums[ty[1]]:
                    if vname == segs[-1] and payload and len(payload) == len(subs):
                        outs = [(f"{XENUM[ty[1]]}.{vname}", dict(env))]
                        for sp, p in zip(subs, payload):
                            pt = self.conv_type(parse_type(p, ctx.what, self.items), ctx.what)
                            new = []
                            for head, env1 in outs:
                                for lp, env2 in self.lean_pats(sp, pt, env1, ctx):
                                    new.append((head + " " + par(lp), env2))
                            outs = new
                        return outs
            if ty[0] == "enum" and len(segs) >= 1 and (len(segs) == 1 or segs[-2] == ty[1]):
                for vname, payload in self.items.enums[ty[1]]:
                    if vname == segs[-1] and payload and len(payload) == len(subs):
                        self.need_enum(ty[1], ctx.what)
                        outs = [(f"{ty[1]}.{vname}", dict(env))]
                        for sp, p in zip(subs, payload):
                            pt = self.conv_type(parse_type(p, ctx.what, self.items), ctx.what)
                            new = []
                            for head, env1 in outs:
                                for lp, env2 in self.lean_pats(sp, pt, env1, ctx):
                                    new.append((head + " " + par(lp), env2))
                            outs = new
                        return outs
            if ty[0] == "nt" and segs == [ty[1]] and len(subs) == 1:
                return self.lean_pats(subs[0], ty[2], env, ctx)
        raise ShapeError(f"{ctx.what}: pattern outside the subset")


GENERIC_PARAMS = ("T", "SPI", "DELAYER")


def mut_ref_params(decl):
    """names of the parameters declared `name: &mut ..` (the front end's types do not keep `mut`)"""
    out, toks = set(), decl.params
    depth, start = 0, 0
    parts, cur = [], []
    for t in toks:
        if t.k == "p" and t.s in ("(", "[", "<", "{"):
            depth += 1
        elif t.k == "p" and t.s in (")", "]", ">", "}"):
            depth -= 1
        if t.k == "p" and t.s == "," and depth == 0:
            parts.append(cur)
            cur = []
        else:
            cur.append(t)
    parts.append(cur)
    for part in parts:
        txt = [t.s for t in part]
        if "self" in txt:
            continue
        if ":" in txt:
            i = txt.index(":")
            if txt[i + 1:i + 3] == ["&", "mut"]:
                name = [x for x in txt[:i] if x != "mut"][-1]
                out.add(name)
    return out


class MC:
    """a computation in `S σ`: Lean text; the components of its value are [ret (unless unit)] ++ selfouts ++ outs"""
    def __init__(self, text, okty, outs=(), selfouts=(), fallible=True, spi=False):
        self.text, self.okty = text, okty
        self.outs = list(outs)          # [(place expression, type)]
        self.selfouts = list(selfouts)  # [(rust variable, type)]
        self.fallible, self.spi = fallible, spi


class SdStmts:
    # the monad the definitions live in (overridden by translators built on this one)
    NS = "S"                              # namespace of fail / panic / attempt / lift / get / ofOption
    FIXED_ARGS = ["B"]                    # what every monadic definition takes first
    SIG = " {σ : Type} (B : BusOps σ)"    # .. and its binders
    MON = "S σ"                           # the type constructor

    def fx(self):
        return "".join(" " + a for a in self.FIXED_ARGS)

    # ================================================================== classification
    def is_monadic(self, key):
        if key not in self.items.fns:
            return False
        decl = self.items.fns[key]
        sk, params = parse_params(decl, self.items)
        if decl.impl == STATE_IMPL:
            return sk is not None
        if key == ("SdCard", "mark_card_uninit"):
            return True
        for pn, pty in params:
            t = pty
            while t[0] == "tref":
                t = t[1]
            if t[0] == "ty" and t[1] in GENERIC_PARAMS:
                return True
        return False

    def strip_ref(self, e):
        while e[0] in ("ref", "deref"):
            e = e[1]
        return e

    def root_var(self, e):
        e = self.strip_ref(e)
        while e[0] in ("index", "field", "ref", "deref"):
            e = e[1]
        if e[0] == "path" and len(e[1]) == 1:
            return e[1][0]
        return None

    def is_bus_arg(self, a, env, ctx):
        a = self.strip_ref(a)
        if a[0] == "field" and self.is_self(a[1], ctx) and a[2] in BUS_FIELDS:
            return True
        return a[0] == "path" and len(a[1]) == 1 and a[1][0] in env and env[a[1][0]][0] == "bus"

    def call_kind(self, e, env, ctx):
        """MC of an expression that is an effectful computation, else None"""
        k = e[0]
        if k == "path" and len(e[1]) == 1 and e[1][0] in env and env[e[1][0]][0] == "res":
            b = env[e[1][0]]
            return MC(f"({self.NS}.lift {b[1]})", b[2])
        if k == "call" and e[1][0] == "path" and len(e[1][1]) == 1 and e[1][1][0] in env \
                and env[e[1][1][0]][0] == "closure":
            b = env[e[1][1][0]]
            if len(e[2]) != 1 or not self.is_self(e[2][0], ctx) or len(b[1]) != 1:
                raise ShapeError(f"{ctx.what}: the closure `{e[1][1][0]}` must be called as `{e[1][1][0]}(self)`")
            info = self.mclosure(e[1][1][0], b[1][0], b[2], ctx)
            return MC(f"({info.name}{self.fx()})" if self.FIXED_ARGS else info.name, info.okty)
        if k != "mcall":
            return None
        _, recv, name, args = e
        # methods of SdCardInner
        if self.is_self(recv, ctx) and (STATE_IMPL, name) in self.items.fns and self.is_monadic((STATE_IMPL, name)):
            return self.call_method((STATE_IMPL, name), None, args, env, ctx)
        # `&mut self` methods of value structs that touch the bus (Delay::delay)
        if recv[0] == "path" and len(recv[1]) == 1 and recv[1][0] in env and env[recv[1][0]][0] == "val":
            t = self.res(env[recv[1][0]][2])
            if t[0] == "cs" and (t[1], name) in self.items.fns and self.is_monadic((t[1], name)):
                return self.call_method((t[1], name), recv[1][0], args, env, ctx)
        # the SPI device
        if recv[0] == "field" and self.is_self(recv[1], ctx) and recv[2] == "spi":
            if name not in SPI_CALLS:
                raise ShapeError(f"{ctx.what}: SPI method `{name}` has no counterpart in the model's bus")
            prim, bufidx, arity = SPI_CALLS[name]
            if len(args) != arity:
                raise ShapeError(f"{ctx.what}: spi.{name} takes {arity} argument(s)")
            if ctx.tag is None:
                raise ShapeError(f"{ctx.what}: SPI call in a function without an event tag (GHOST tables)")
            vs = []
            for a in args:
                v, wrap = self.pv(self.strip_ref(a), env, ctx)
                if wrap("") != "":
                    raise ShapeError(f"{ctx.what}: arguments of spi.{name} must be plain buffers")
                if self.res(v.ty)[0] != "bytes":
                    raise ShapeError(f"{ctx.what}: byte buffer expected in spi.{name}")
                vs.append(v)
            outs = [(self.strip_ref(args[bufidx]), vs[bufidx].ty)] if bufidx is not None else []
            text = f"({prim} B {ctx.tag}" + "".join(" " + self.arg(v, ctx) for v in vs) + ")"
            return MC(text, ("unit",), outs, fallible=True, spi=True)
        # the delay provider
        if recv[0] == "path" and len(recv[1]) == 1 and recv[1][0] in env and env[recv[1][0]][0] == "bus":
            if name != "delay_us" or len(args) != 1:
                raise ShapeError(f"{ctx.what}: only `delay_us(n)` is in the subset on the delay provider")
            v, wrap = self.pv(args[0], env, ctx)
            return MC(f"(delayUs B {self.arg(v, ctx)})", ("unit",), fallible=False)
        # combinators on a computation
        if name == "map_err" and len(args) == 1:
            inner = self.call_kind(recv, env, ctx)
            if inner is not None:
                c = args[0]
                if not inner.spi or c[0] != "closure" or len(c[1]) != 1:
                    raise ShapeError(f"{ctx.what}: `.map_err(|_| Error::X)` is in the subset on SPI calls only")
                env2 = dict(env)
                ev, wrap = self.pv(c[2], env2, ctx)
                if c[1][0] in self.names_in(c[2]):
                    raise ShapeError(f"{ctx.what}: the SPI error value is opaque; the map_err closure must ignore it")
                self.unify(ev.ty, ("xenum", self.ERR_ENUM), ctx.what)
                return MC(f"({inner.text} >>= {self.NS}.ofOption {self.arg(ev, ctx)})", inner.okty, inner.outs)
        if name in ("and_then", "map") and len(args) == 1 and args[0][0] == "closure":
            inner = self.call_kind(recv, env, ctx)
            if inner is not None:
                if inner.spi or not inner.fallible:
                    raise ShapeError(f"{ctx.what}: `.{name}(..)` on this call is outside the subset")
                c = args[0]
                if inner.outs or inner.selfouts:
                    raise ShapeError(f"{ctx.what}: `.{name}(..)` on a call with `&mut` arguments is outside the subset")
                if len(c[1]) != 1:
                    raise ShapeError(f"{ctx.what}: one-parameter closure expected")
                pn = c[1][0]
                env2 = dict(env)
                if pn != "_":
                    env2[pn] = ("val", lname(pn), inner.okty)
                lp = lname(pn) if pn != "_" else "_"
                if name == "map":
                    v, wrap = self.pv(c[2], env2, ctx)
                    return MC(f"({inner.text} >>= fun {lp} =>\n{wrap(f'(pure {self.arg(v, ctx)})')})", v.ty)
                second = self.call_kind(c[2], env2, ctx)
                if second is None or second.spi or not second.fallible or second.outs or second.selfouts:
                    raise ShapeError(f"{ctx.what}: the and_then closure must be a fallible call without `&mut` arguments")
                return MC(f"({inner.text} >>= fun {lp} =>\n{second.text})", second.okty)
        return None

    def names_in(self, node):
        out = set()
        free_names(node, out)
        return out

    def call_method(self, key, recv_var, args, env, ctx):
        info = self.mfun(key)
        decl = self.items.fns[key]
        _, cparams = parse_params(decl, self.items)
        if len(cparams) != len(args):
            raise ShapeError(f"{ctx.what}: wrong number of arguments for {key[1]}")
        actual, outs = [], []
        if info.tagged:
            tag = CALL_TAGS.get((ctx.fname, key[1]))
            if tag is None:
                raise ShapeError(f"{ctx.what}: no event tag is listed for the call of {key[1]} here (GHOST tables)")
            actual.append(tag)
        selfouts, wraps = [], []
        if recv_var is not None:
            b = env[recv_var]
            actual.append(b[1])
            selfouts.append((recv_var, b[2]))
        it = iter(info.ptypes)
        for (pn, pty), a, kind in zip(cparams, args, info.pkinds):
            if kind == "bus":
                if not self.is_bus_arg(a, env, ctx):
                    raise ShapeError(f"{ctx.what}: the bus must be passed on as it is to {key[1]}")
                continue
            pt = next(it)
            place = self.strip_ref(a)
            v, wrap = self.pv(place, env, ctx)
            wraps.append(wrap)
            self.unify(v.ty, pt, ctx.what)
            actual.append(self.arg(v, ctx))
            if kind == "out":
                outs.append((place, v.ty))
        text = f"({info.name}{self.fx()}" + "".join(" " + a for a in actual) + ")"
        if not self.FIXED_ARGS and not actual:
            text = info.name
        for w in reversed(wraps):
            text = w(text)
        return MC(text, info.okty, outs, selfouts, info.fallible)

    def effectful(self, node, env, ctx):
        if isinstance(node, tuple):
            if node and node[0] in ("try", "return"):
                return True
            if node and node[0] == "closure":
                return False
            if node and node[0] in ("mcall", "call", "path") and isinstance(node[0], str):
                try:
                    if node[0] != "path" and self.call_kind_cheap(node, env, ctx):
                        return True
                except ShapeError:
                    return True
            return any(self.effectful(x, env, ctx) for x in node)
        if isinstance(node, list):
            return any(self.effectful(x, env, ctx) for x in node)
        return False

    def call_kind_cheap(self, e, env, ctx):
        """is this call node an effectful call (without translating it)?"""
        if e[0] == "call":
            return e[1][0] == "path" and len(e[1][1]) == 1 and e[1][1][0] in env and env[e[1][1][0]][0] == "closure"
        _, recv, name, args = e
        if self.is_self(recv, ctx) and (STATE_IMPL, name) in self.items.fns:
            return True
        if recv[0] == "path" and len(recv[1]) == 1 and recv[1][0] in env:
            b = env[recv[1][0]]
            if b[0] == "bus":
                return True
            if b[0] == "val":
                t = self.res(b[2])
                if t[0] == "cs" and (t[1], name) in self.items.fns and self.is_monadic((t[1], name)):
                    return True
        if recv[0] == "field" and self.is_self(recv[1], ctx) and recv[2] == "spi":
            return True
        if name in ("map_err", "and_then", "map") and recv[0] in ("mcall", "call"):
            return self.call_kind_cheap(recv, env, ctx)
        return False

    def mutated(self, node, env, ctx, out):
        """root names of what the statements may change: assignments, `&mut` arguments, receivers of `&mut self`
        value methods, `.fill(..)`"""
        assigned_names(node, out)

        def walk(n):
            if isinstance(n, tuple):
                if n and n[0] == "mcall":
                    _, recv, name, args = n
                    if name == "fill":
                        r = self.root_var(recv)
                        if r:
                            out.add(r)
                    if self.is_self(recv, ctx) and (STATE_IMPL, name) in self.items.fns:
                        decl = self.items.fns[(STATE_IMPL, name)]
                        muts = mut_ref_params(decl)
                        _, cps = parse_params(decl, self.items)
                        for (pn, pty), a in zip(cps, args):
                            if pn in muts:
                                r = self.root_var(a)
                                if r:
                                    out.add(r)
                    if recv[0] == "field" and self.is_self(recv[1], ctx) and recv[2] == "spi" and name in SPI_CALLS:
                        bi = SPI_CALLS[name][1]
                        if bi is not None and bi < len(args):
                            r = self.root_var(args[bi])
                            if r:
                                out.add(r)
                    if recv[0] == "path" and len(recv[1]) == 1 and recv[1][0] in env and env[recv[1][0]][0] == "val":
                        t = self.res(env[recv[1][0]][2])
                        if t[0] == "cs" and (t[1], name) in self.items.fns:
                            sk, _ = parse_params(self.items.fns[(t[1], name)], self.items)
                            if sk is not None and "mut" in sk:
                                out.add(recv[1][0])
                for x in n:
                    walk(x)
            elif isinstance(n, list):
                for x in n:
                    walk(x)
        walk(node)
        self.self_mutated(node, ctx, out)
        self.extra_mutated(node, env, ctx, out)
        # aliases of list elements change the list
        for n in list(out):
            if n in env and env[n][0] == "elem":
                out.discard(n)
                out.add(env[n][4])
        return out

    def self_field_of(self, e, ctx):
        """`self.f...` (through indexing / further fields) of a value-struct `self` -> the key of its field variable"""
        while e[0] in ("index", "ref", "deref") or (e[0] == "field" and e[1] != ("path", ["self"])):
            e = e[1]
        if e[0] == "field" and e[1] == ("path", ["self"]) and getattr(ctx, "selfvals", None) is not None \
                and e[2] in ctx.selfvals:
            return "self_" + e[2]
        return None

    def self_mutated(self, node, ctx, out):
        """fields of a value-struct `self` that are assigned"""
        if getattr(ctx, "selfvals", None) is None:
            return

        def walk(n):
            if isinstance(n, tuple):
                if n and n[0] == "assign":
                    k = self.self_field_of(n[2], ctx)
                    if k:
                        out.add(k)
                for x in n:
                    walk(x)
            elif isinstance(n, list):
                for x in n:
                    walk(x)
        walk(node)

    def extra_mutated(self, node, env, ctx, out):
        """hook: further things that change variables (for translators built on this one)"""

    def used_names(self, node, ctx):
        """names read in the node; a field of a value-struct `self` counts as its variable"""
        out = self.names_in(node)
        if getattr(ctx, "selfvals", None) is not None:
            def walk(n):
                if isinstance(n, tuple):
                    if n and n[0] == "field" and n[1] == ("path", ["self"]) and n[2] in ctx.selfvals:
                        out.add("self_" + n[2])
                    for x in n:
                        walk(x)
                elif isinstance(n, list):
                    for x in n:
                        walk(x)
            walk(node)
        return out

    # ================================================================== pure values inside the monad
    def panic_msg(self, ok):
        body = ok.strip()
        single = not (" ∧ " in body or " → " in body or body.startswith("(if") or body.startswith("(match"))
        if single and " * " in body:
            return "attempt to multiply with overflow"
        if single and " + " in body and ".length" not in body:
            return "attempt to add with overflow"
        if single and " ≤ " in body and ".length" not in body:
            return "attempt to subtract with overflow"
        if single and ".length" in body:
            return "index out of bounds"
        return "arithmetic overflow or index out of bounds"

    def pv(self, e, env, ctx):
        """pure value of `e`, and the wrapper that puts the state read / the overflow check in front of a text"""
        ctx.used_st = False
        v = self.tr(e, env, ctx)
        used, ctx.used_st = ctx.used_st, False
        ok = v.ok

        def wrap(text):
            if ok is not None:
                text = f"(if {ok} then\n{text}\nelse {self.NS}.panic \"{self.panic_msg(ok)}\")"
            if used:
                text = bind(f"{self.NS}.get", "st", text)
            return text
        return V(v.lean, v.ty, None, v.const, v.prop), wrap

    # ================================================================== expressions with effects
    def use_call(self, mc, env, ctx, k, mode):
        """bind the computation; k(env, V of the returned value or None) -> text"""
        env2 = dict(env)
        if mc.spi:
            raise ShapeError(f"{ctx.what}: the result of an SPI call must go through `.map_err(|_| Error::..)?`")
        has_ret = self.res(mc.okty) != ("unit",)
        if mode == "try" or not mc.fallible:
            names, post = [], []
            rv = None
            if has_ret:
                tn = self.tmp()
                names.append(tn)
                rv = V(tn, mc.okty)
            for var, ty in mc.selfouts:
                names.append(lname(var))
                env2[var] = ("val", lname(var), ty)
            for place, ty in mc.outs:
                if place[0] == "path" and len(place[1]) == 1 and place[1][0] in env2 and env2[place[1][0]][0] == "val":
                    names.append(lname(place[1][0]))
                    env2[place[1][0]] = ("val", lname(place[1][0]), ty)
                else:
                    tn = self.tmp()
                    names.append(tn)
                    post.append((place, tn))

            def fin(i, envx):
                if i == len(post):
                    return k(envx, rv)
                return self.set_place(post[i][0], post[i][1], envx, ctx, lambda e3: fin(i + 1, e3))
            return bind(mc.text, tup(names) if names else "_", fin(0, env2))
        # the outcome as a value
        rn = self.tmp()
        if not mc.outs and not mc.selfouts:
            return bind(f"({self.NS}.attempt {mc.text})", rn, k(env2, V(rn, ("sres", mc.okty))))
        if has_ret or mc.selfouts or len(mc.outs) != 1:
            raise ShapeError(f"{ctx.what}: an outcome kept in a variable of a call with this combination of `&mut` "
                             f"arguments is outside the subset")
        place, ty = mc.outs[0]
        old, wrap = self.pv(place, env2, ctx)
        body = self.set_place(place, f"(SRes.outOr {self.arg(old, ctx)} {rn})", env2, ctx,
                              lambda e3: k(e3, V(f"(SRes.void {rn})", ("sres", ("unit",)))))
        return bind(f"({self.NS}.attempt {mc.text})", rn, wrap(body))

    def mexpr(self, e, env, ctx, k):
        """evaluate `e` (effects in source order), then k(env, V) -> text"""
        kind = e[0]
        if not self.effectful(e, env, ctx):
            try:
                v, wrap = self.pv(e, env, ctx)
                return wrap(k(env, v))
            except NeedMonad:
                if kind not in ("if", "match", "block"):
                    raise
                text, ty = self.mvalue(e, env, ctx)
                tn = self.tmp()
                return bind(text, tn, k(dict(env), V(tn, ty)))
        if kind == "try":
            mc = self.call_kind(e[1], env, ctx)
            if mc is None:
                raise ShapeError(f"{ctx.what}: `?` on this expression is outside the subset")
            return self.use_call(mc, env, ctx, lambda e2, v: k(e2, v if v is not None else V("()", ("unit",))), "try")
        mc = self.call_kind(e, env, ctx) if kind in ("mcall", "call") else None
        if mc is not None:
            if mc.fallible and not mc.spi:
                return self.use_call(mc, env, ctx, k, "attempt")
            return self.use_call(mc, env, ctx, lambda e2, v: k(e2, v if v is not None else V("()", ("unit",))), "try")
        if kind == "bin" and e[1] in ("&&", "||") and self.effectful(e[3], env, ctx):
            def after_a(env2, va):
                pa = self.as_prop(va, ctx)
                tn = self.tmp()
                rhs = self.mexpr(e[3], env2, ctx, lambda e3, vb: f"(pure {self.as_bool(vb, ctx)})")
                if e[1] == "&&":
                    m = f"(if {pa} then\n{rhs}\nelse pure false)"
                else:
                    m = f"(if {pa} then pure true else\n{rhs})"
                return bind(m, tn, k(env2, V(tn, ("bool",))))
            return self.mexpr(e[2], env, ctx, after_a)
        if kind in ("if", "match", "block", "loop"):
            text, ty = self.mvalue(e, env, ctx)
            tn = self.tmp()
            env2 = dict(env)
            return bind(text, tn, k(env2, V(tn, ty)))
        if kind not in ("bin", "un", "cast", "index", "field", "ref", "deref", "tuple", "array", "repeat", "call",
                        "mcall", "range", "struct"):
            raise ShapeError(f"{ctx.what}: `{kind}` with effects in this position is outside the subset")
        # hoist the effectful children, left to right
        elems = list(e)

        def go(i, envx, acc):
            if i == len(elems):
                v, wrap = self.pv(tuple(acc), envx, ctx)
                return wrap(k(envx, v))
            x = elems[i]
            if isinstance(x, list):
                def go_list(j, envy, lacc):
                    if j == len(x):
                        return go(i + 1, envy, acc + [lacc])
                    if self.effectful(x[j], envy, ctx):
                        return self.mexpr(x[j], envy, ctx, lambda e3, v: self.hoisted(v, e3, ctx, lambda e4, node: go_list(j + 1, e4, lacc + [node])))
                    return go_list(j + 1, envy, lacc + [x[j]])
                return go_list(0, envx, [])
            if isinstance(x, tuple) and x and isinstance(x[0], str) and self.effectful(x, envx, ctx):
                return self.mexpr(x, envx, ctx, lambda e3, v: self.hoisted(v, e3, ctx, lambda e4, node: go(i + 1, e4, acc + [node])))
            return go(i + 1, envx, acc + [x])
        return go(0, env, [])

    def hoisted(self, v, env, ctx, k):
        """give the value a name that the pure translator can refer to; k(env, path node) -> text"""
        tn = self.tmp()
        env2 = dict(env)
        t = self.res(v.ty)
        if t[0] == "sres":
            env2[tn] = ("res", tn, t[1])
        else:
            env2[tn] = ("val", tn, v.ty)
        if simple(v.lean) and not v.prop:
            env2[tn] = (env2[tn][0], v.lean, env2[tn][2])
            return k(env2, ("path", [tn]))
        return let_(tn, self.value(v, ctx), k(env2, ("path", [tn])))

    def mvalue(self, e, env, ctx):
        """a computation that yields the value of `e` -> (text, type); `return Err(..)` inside is a failure"""
        kind = e[0]
        if kind == "return":
            if e[1] is not None and is_err_ctor(e[1]):
                ev, wrap = self.pv(e[1][2][0], env, ctx)
                self.unify(ev.ty, ("xenum", self.ERR_ENUM), ctx.what)
                return wrap(f"({self.NS}.fail {self.arg(ev, ctx)})"), self.fresh_any()
            raise ShapeError(f"{ctx.what}: `return` of a value inside an expression is outside the subset")
        if kind == "block":
            names = set()
            self.mutated(e, env, ctx, names)
            if any(n in env for n in names):
                raise ShapeError(f"{ctx.what}: a block used as a value assigns outer variables (outside the subset)")
            box = {}

            def fin(env2):
                if e[2] is None:
                    box["ty"] = ("unit",)
                    return "(pure ())"
                t, ty = self.mvalue(e[2], env2, ctx)
                box["ty"] = ty
                return t
            text = self.seq(list(e[1]), dict(env), ctx, fin)
            if "ty" not in box:
                raise ShapeError(f"{ctx.what}: a block used as a value does not reach its end (outside the subset)")
            return text, box["ty"]
        if kind == "if":
            _, cond, thn, els = e
            if els is None:
                raise ShapeError(f"{ctx.what}: `if` without `else` used as a value")
            box = {}

            def after(env2, c):
                a, ta = self.mvalue(thn, env2, ctx)
                b, tb = self.mvalue(els, env2, ctx)
                box["ty"] = self.unify(ta, tb, ctx.what)
                return f"(if {self.as_prop(c, ctx)} then\n{a}\nelse\n{b})"
            text = self.mexpr(cond, env, ctx, after)
            return text, box["ty"]
        if kind == "match":
            box = {"ty": None}

            def arm(body, env2):
                t, ty = self.mvalue(body, env2, ctx)
                box["ty"] = ty if box["ty"] is None else self.unify(box["ty"], ty, ctx.what)
                return t
            text = self.match_on(e[1], e[2], env, ctx, arm)
            return text, box["ty"]
        if kind == "loop":
            box = {}

            def fin(env2, bv):
                if bv is None:
                    raise ShapeError(f"{ctx.what}: a `loop` used as a value must `break` with one")
                box["ty"] = bv.ty
                return f"(pure {self.arg(bv, ctx)})"
            names = set()
            self.mutated(e, env, ctx, names)
            text = self.s_loop(("loop", e[1]), env, ctx, fin)
            return text, box["ty"]
        box = {}

        def fin2(env2, v):
            box["ty"] = v.ty
            return f"(pure {self.arg(v, ctx)})"
        text = self.mexpr(e, env, ctx, fin2)
        return text, box["ty"]

    def match_on(self, scrut, arms, env, ctx, arm_text):
        """`match scrut { arms }` with arm bodies rendered by arm_text(body, env) -> text"""
        mc = self.call_kind(scrut, env, ctx) if scrut[0] in ("mcall", "call") else None

        def arms_for(sv, env2):
            pieces = []
            t = self.res(sv.ty)
            if self.is_int(t) and t[0] != "var":
                return self.int_arms(sv, arms, env2, ctx, arm_text)
            if t[0] == "sres":
                pieces.append(f"| SRes.panic _p => {self.NS}.panic _p")
            for pat, guard, body in arms:
                if guard is not None:
                    raise ShapeError(f"{ctx.what}: match guards are outside the subset")
                for lp, env3 in self.lean_pats(pat, sv.ty, env2, ctx):
                    pieces.append(f"| {lp} =>\n{arm_text(body, env3)}")
            return f"(match {sv.lean} with\n" + "\n".join(pieces) + ")"
        if mc is not None:
            if not mc.fallible or mc.spi:
                raise ShapeError(f"{ctx.what}: `match` on this call is outside the subset")
            return self.use_call(mc, env, ctx, lambda e2, v: arms_for(v, e2), "attempt")
        if self.effectful(scrut, env, ctx):
            return self.mexpr(scrut, env, ctx, lambda e2, v: arms_for(v, e2))
        sv, wrap = self.pv(scrut, env, ctx)
        return wrap(arms_for(sv, env))

    def int_arms(self, sv, arms, env, ctx, arm_text):
        """`match` on an integer (or a char): an if-chain, the arms in their order"""
        pre, orig = "", sv.lean
        if not simple(sv.lean):
            tn = self.tmp()
            pre, sv = tn, V(tn, sv.ty)
        out, closed = [], False
        for idx, (pat, guard, body) in enumerate(arms):
            cond, binds = self.pat_cond(pat, V(sv.lean, sv.ty), ctx)
            env2 = dict(env)
            for n, bv in binds:
                self.check_local(n, ctx)
                env2[n] = ("val", bv.lean, bv.ty)
            wrapg = None
            if guard is not None:
                g, wrapg = self.pv(guard, env2, ctx)
                if wrapg("") != "":
                    raise ShapeError(f"{ctx.what}: a match guard with a side condition is outside the subset")
                gp = self.as_prop(g, ctx)
                cond = gp if cond is None else f"({cond} ∧ {gp})"
            text = arm_text(body, env2)
            if cond is None:
                out.append(text)
                closed = True
                if idx != len(arms) - 1:
                    raise ShapeError(f"{ctx.what}: unreachable match arms after an irrefutable pattern")
                break
            out.append(f"if {cond} then\n{text}\nelse")
        if not closed:
            raise ShapeError(f"{ctx.what}: a `match` on an integer needs a final catch-all arm")
        body = "\n".join(out)
        if pre:
            return f"(let {pre} := {orig};\n{body})"
        return f"({body})"

    # ================================================================== places
    def set_place(self, place, val, env, ctx, cont, vty=None):
        """`place = val` (val: Lean text); cont(env) -> text"""
        place = self.strip_ref(place)
        env2 = dict(env)
        if place[0] == "path" and len(place[1]) == 1:
            n = place[1][0]
            if n not in env:
                raise ShapeError(f"{ctx.what}: assignment to unknown `{n}`")
            b = env[n]
            if b[0] == "val":
                if vty is not None:
                    self.unify(b[2], vty, ctx.what)
                env2[n] = ("val", lname(n), b[2])
                return let_(lname(n), val, cont(env2))
            if b[0] == "uninit":
                if vty is not None:
                    self.unify(b[1], vty, ctx.what)
                env2[n] = ("val", lname(n), b[1])
                return let_(lname(n), val, cont(env2))
            if b[0] == "res":
                env2[n] = ("res", lname(n), b[2])
                return let_(lname(n), val, cont(env2))
            if b[0] == "elem":
                base = b[4]
                env2[base] = ("val", lname(base), env[base][2])
                return let_(lname(base), f"(List.set {env[base][1]} {b[2]} {val})", cont(env2))
            raise ShapeError(f"{ctx.what}: assignment to `{n}` is outside the subset")
        if place[0] == "field":
            _, base, f = place
            if self.is_self(base, ctx):
                if f == "card_type":
                    return bind(f"(setCardType {val})", "_", cont(env2))
                raise ShapeError(f"{ctx.what}: assignment to `self.{f}` has no place in the model's state")
            if base == ("path", ["self"]) and ctx.selfvals is not None and f in ctx.selfvals:
                key = "self_" + f
                env2[key] = ("val", key, env[key][2])
                return let_(key, val, cont(env2))
            bv, wrap = self.pv(base, env, ctx)
            t = self.res(bv.ty)
            if t[0] == "cs" and f == COLLAPSE[t[1]]:
                return self.set_place(base, val, env, ctx, cont)
            raise ShapeError(f"{ctx.what}: assignment to field `.{f}` is outside the subset")
        if place[0] == "index" and place[2][0] != "range":
            _, base, idx = place
            bv, wrapb = self.pv(base, env, ctx)
            iv, wrapi = self.pv(idx, env, ctx)
            t = self.res(bv.ty)
            if t == ("blocks",):
                return self.set_place(base, f"(List.set {self.arg(bv, ctx)} {self.arg(iv, ctx)} {val})", env, ctx, cont)
            if t[0] == "bytes":
                text = self.set_place(base, f"(List.set {self.arg(bv, ctx)} {self.arg(iv, ctx)} (UInt8.ofNat {val}))", env, ctx, cont)
                if not (t[1] is not None and iv.const is not None and iv.const < t[1]):
                    bound = str(t[1]) if t[1] is not None else f"{self.arg(bv, ctx)}.length"
                    text = f"(if {self.arg(iv, ctx)} < {bound} then\n{text}\nelse {self.NS}.panic \"index out of bounds\")"
                return text
        raise ShapeError(f"{ctx.what}: this assignment target is outside the subset")

    # ================================================================== statements
    def seq(self, stmts, env, ctx, k, top=False):
        if not stmts:
            return k(env)
        s, rest = stmts[0], stmts[1:]
        ctx.rest_info = (rest, top)

        def cont(env2):
            return self.seq(rest, env2, ctx, k, top)
        kind = s[0]
        if kind == "let":
            return self.s_let(s, env, ctx, cont)
        if kind in ("loop", "while", "for"):
            return self.s_loop(s, env, ctx, lambda e2, bv: cont(e2))
        if kind == "tailexpr":
            return self.tail(s[1], env, ctx)
        if kind == "expr":
            return self.s_expr(s[1], env, ctx, cont)
        raise ShapeError(f"{ctx.what}: statement kind `{kind}` is outside the subset")

    def scoped(self, block, env, ctx, k):
        """the statements of a block; names declared inside do not leave it"""
        stmts = list(block[1]) + ([("expr", block[2])] if block[2] is not None else [])

        def leave(inner):
            out = {}
            for n in env:
                out[n] = inner[n] if n in inner else env[n]
            # same-named inner declarations must not leak: keep the outer binding unless it was assigned
            decl = set()
            for st in block[1]:
                if st[0] == "let":
                    translate.pat_names(st[1], decl)
            for n in decl:
                if n in env:
                    out[n] = env[n]
            return k(out)
        return self.seq(stmts, dict(env), ctx, leave)

    def s_expr(self, e, env, ctx, cont):
        kind = e[0]
        if kind == "macro" and e[1] in LOG_MACROS:
            return cont(env)
        if kind == "assign":
            return self.s_assign(e, env, ctx, cont)
        if kind == "return":
            return self.s_return(e, env, ctx)
        if kind == "break":
            if ctx.loop is None:
                raise ShapeError(f"{ctx.what}: `break` outside a loop")
            if e[1] is None:
                return ctx.loop["brk"](env, None)
            return self.mexpr(e[1], env, ctx, lambda e2, v: ctx.loop["brk"](e2, v))
        if kind == "continue":
            if ctx.loop is None:
                raise ShapeError(f"{ctx.what}: `continue` outside a loop")
            return ctx.loop["cont"](env)
        if kind == "if":
            return self.s_if(e, env, ctx, cont)
        if kind == "iflet":
            # `if let P = e { A } else { B }`: the two-armed match
            _, pat, scrut, blk, els = e
            arms = [(pat, None, blk), (("pwild",), None, els if els is not None else ("block", [], None))]
            return self.s_match(("match", scrut, arms), env, ctx, cont)
        if kind == "match":
            return self.s_match(e, env, ctx, cont)
        if kind == "block":
            return self.scoped(e, env, ctx, cont)
        if kind == "loop":
            return self.s_loop(("loop", e[1]), env, ctx, lambda e2, bv: cont(e2))
        if kind == "mcall" and e[2] == "fill" and len(e[3]) == 1:
            bv, wrapb = self.pv(e[1], env, ctx)
            xv, wrapx = self.pv(e[3][0], env, ctx)
            if self.res(bv.ty)[0] != "bytes":
                raise ShapeError(f"{ctx.what}: `.fill(..)` on {self.show(bv.ty)}")
            self.unify(xv.ty, ("int", 8), ctx.what)
            return self.set_place(e[1], f"(List.replicate {self.arg(bv, ctx)}.length (UInt8.ofNat {self.arg(xv, ctx)}))",
                                  env, ctx, cont)
        if self.effectful(e, env, ctx):
            return self.mexpr(e, env, ctx, lambda e2, v: cont(e2))
        raise ShapeError(f"{ctx.what}: statement `{kind}` is outside the subset")

    def s_return(self, e, env, ctx):
        r = e[1]
        if r is None:
            return ctx.retk(None, env)
        if is_err_ctor(r):
            ev, wrap = self.pv(r[2][0], env, ctx)
            self.unify(ev.ty, ("xenum", self.ERR_ENUM), ctx.what)
            return wrap(f"({self.NS}.fail {self.arg(ev, ctx)})")
        if ctx.loop is not None and not ctx.loop.get("retok"):
            raise ShapeError(f"{ctx.what}: `return` of a value inside a loop that also has `break` is outside the subset")
        return self.tail(r, env, ctx)

    def tail(self, e, env, ctx):
        """the value the function ends with"""
        kind = e[0]
        info = ctx.info
        if kind == "block":
            stmts = list(e[1])
            if e[2] is None:
                return self.seq(stmts, dict(env), ctx, lambda e2: ctx.retk(None, e2), True)
            return self.seq(stmts + [("tailexpr", e[2])], dict(env), ctx, lambda e2: self._bad(ctx, "internal: tail"), True)
        if kind == "if" and e[3] is not None:
            return self.mexpr(e[1], env, ctx, lambda e2, c:
                              f"(if {self.as_prop(c, ctx)} then\n{self.tail(e[2], e2, ctx)}\nelse\n{self.tail(e[3], e2, ctx)})")
        if kind == "match":
            return self.match_on(e[1], e[2], env, ctx, lambda body, e2: self.tail(body, e2, ctx))
        if kind == "return":
            return self.s_return(e, env, ctx)
        if info.fallible:
            if is_ok_ctor(e):
                return self.mexpr(e[2][0], env, ctx, lambda e2, v: ctx.retk(v, e2))
            if is_err_ctor(e):
                return self.s_return(("return", e), env, ctx)
            mc = self.call_kind(e, env, ctx)
            if mc is not None and mc.fallible and not mc.spi:
                plain = not mc.outs and not mc.selfouts and not info.outs and not info.selfout
                if plain:
                    return mc.text
                return self.use_call(mc, env, ctx, lambda e2, v: ctx.retk(v, e2), "try")
            raise ShapeError(f"{ctx.what}: the final expression must be `Ok(..)`, `Err(..)`, a call or an outcome")
        return self.mexpr(e, env, ctx, lambda e2, v: ctx.retk(v, e2))

    def s_let(self, s, env, ctx, cont):
        _, pat, ty, init = s
        env2 = dict(env)
        if pat[0] == "pwild" and init is not None:
            return self.mexpr(init, env, ctx, lambda e2, v: cont(e2))
        if pat[0] != "pbind":
            raise ShapeError(f"{ctx.what}: `let` pattern outside the subset")
        name = pat[1]
        self.check_local(name, ctx)
        if init is None:
            dty = self.conv_type(ty, ctx.what, ctx.impl) if ty is not None else self.fresh_any()
            env2[name] = ("uninit", dty)
            return cont(env2)
        if init[0] == "closure":
            env2[name] = ("closure", init[1], init[2])
            return cont(env2)
        if init[0] == "mcall" and init[2] == "borrow_mut" and init[1] == ("field", ("path", ["self"]), "inner"):
            ctx.aliases.add(name)
            return cont(env2)

        def bound(e2, v):
            e3 = dict(e2)
            t = self.res(v.ty)
            if ty is not None:
                self.unify(v.ty, self.conv_type(ty, ctx.what, ctx.impl), ctx.what)
            if t[0] == "sres":
                e3[name] = ("res", lname(name), t[1])
            else:
                e3[name] = ("val", lname(name), v.ty)
            if v.lean == lname(name):
                return cont(e3)
            return let_(lname(name), self.value(v, ctx), cont(e3))
        if init[0] == "loop":
            return self.s_loop(("loop", init[1]), env, ctx,
                               lambda e2, bv: bound(e2, bv) if bv is not None else self._bad(ctx, "`let` of a loop without a break value"))
        return self.mexpr(init, env, ctx, bound)

    def s_assign(self, e, env, ctx, cont):
        _, op, lhs, rhs = e
        if op != "=":
            rhs = ("bin", op[:-1], lhs, rhs)
        return self.mexpr(rhs, env, ctx, lambda e2, v: self.set_place(lhs, self.value(v, ctx), e2, ctx, cont, v.ty))

    # ------------------------------------------------------------------ if / match statements
    def join_vars(self, nodes, env, ctx):
        names = set()
        for n in nodes:
            self.mutated(n, env, ctx, names)
        return sorted(n for n in names if n in env and env[n][0] in ("val", "res", "uninit"))

    def join_tuple(self, A, envb, ctx):
        parts = []
        for a in A:
            b = envb[a]
            if b[0] == "uninit":
                raise ShapeError(f"{ctx.what}: `{a}` is assigned on some paths only (outside the subset)")
            parts.append(b[1])
        return f"(pure {tup(parts)})"

    def after_join(self, A, env, envs, ctx):
        env2 = dict(env)
        for a in A:
            kinds = [e[a] for e in envs if e[a][0] != "uninit"]
            b = kinds[0]
            env2[a] = (b[0], lname(a), b[2] if b[0] != "uninit" else b[1])
        return env2

    def s_if(self, e, env, ctx, cont):
        _, cond, thn, els = e
        jumps = has_jump([thn, els]) or (ctx.loop is not None and has_return_ok([thn, els]))
        if not jumps and has_return_ok([thn, els]):
            jumps = True

        def after(env2, c):
            p = self.as_prop(c, ctx)
            if jumps:
                a = self.scoped(thn, env2, ctx, cont)
                if els is None:
                    b = cont(env2)
                elif els[0] == "if":
                    b = self.s_if(els, env2, ctx, cont)
                else:
                    b = self.scoped(els, env2, ctx, cont)
                return f"(if {p} then\n{a}\nelse\n{b})"
            A = self.join_vars([thn, els], env2, ctx)
            envs = []

            def kj(envb):
                envs.append(envb)
                return self.join_tuple(A, envb, ctx)
            a = self.scoped(thn, env2, ctx, kj)
            if els is None:
                b = kj(env2)
            elif els[0] == "if":
                b = self.s_if(els, env2, ctx, kj)
            else:
                b = self.scoped(els, env2, ctx, kj)
            env3 = self.after_join(A, env2, envs, ctx)
            pat = tup([lname(a_) for a_ in A]) if A else "_"
            return bind(f"(if {p} then\n{a}\nelse\n{b})", pat, cont(env3))
        return self.mexpr(cond, env, ctx, after)

    def as_block(self, body):
        return body if body[0] == "block" else ("block", [], body)

    def s_match(self, e, env, ctx, cont):
        _, scrut, arms = e
        bodies = [b for _p, _g, b in arms]
        jumps = has_jump(bodies) or has_return_ok(bodies)
        if jumps:
            return self.match_on(scrut, arms, env, ctx,
                                 lambda body, e2: self.scoped(self.as_block(body), e2, ctx,
                                                              lambda e3: cont({n: e3[n] for n in env})))
        A = self.join_vars(bodies, env, ctx)
        envs = []

        def arm(body, e2):
            def kj(envb):
                envs.append(envb)
                return self.join_tuple(A, envb, ctx)
            return self.scoped(self.as_block(body), e2, ctx, lambda e3: kj({n: e3[n] for n in env}))
        text = self.match_on(scrut, arms, env, ctx, arm)
        env3 = self.after_join(A, env, envs, ctx) if envs else dict(env)
        pat = tup([lname(a_) for a_ in A]) if A else "_"
        return bind(text, pat, cont(env3))

    # ================================================================== loops
    def live_after(self, name, rest, top, ctx):
        """is the variable read after this statement (before it is declared anew)?"""
        for st in rest:
            if st[0] == "let" and st[1][0] == "pbind" and st[1][1] == name:
                return st[3] is not None and name in self.used_names(strip_logs(st[3]), ctx)
            if name in self.used_names(strip_logs(st), ctx):
                return True
        if top:
            return name in [n for n, _t in ctx.info.outs] or name in ["self_" + f for f, _t in ctx.info.selfout]
        return True

    def s_loop(self, s, env, ctx, k):
        """k(env after the loop, V of the break value or None) -> text"""
        rest_stmts, rest_top = getattr(ctx, "rest_info", ([], False))
        kind = s[0]
        index = None          # (rust name or None, lean name, first value text) of a counting variable
        count = None          # Lean text of the number of iterations of a counted loop
        listrec = None        # (loop variable or None, Lean text of the list, element type, Lean type of the list)
        elem = None           # (loop variable, base list variable) of an element loop
        if kind == "loop":
            body = s[1]
        elif kind == "while":
            brk = ("expr", ("if", s[1], ("block", [], None), ("block", [("expr", ("break", None))], None)))
            body = ("block", [brk] + list(s[2][1]) + ([("expr", s[2][2])] if s[2][2] is not None else []), None)
        else:
            _, pat, it, body = s
            if pat[0] not in ("pbind", "pwild") and it[0] == "range":
                raise ShapeError(f"{ctx.what}: `for` pattern outside the subset")
            var = pat[1] if pat[0] == "pbind" else None
            used = var is not None and var in self.names_in(strip_logs(body))
            if it[0] == "range":
                _, lo, hi, inc = it
                lov, wl = self.pv(lo if lo is not None else ("lit", 0, None), env, ctx)
                if hi is not None:
                    hiv, wh = self.pv(hi, env, ctx)
                    self.unify(lov.ty, hiv.ty, ctx.what)
                    if lov.const is not None and hiv.const is not None:
                        count = str(max(0, hiv.const + (1 if inc else 0) - lov.const))
                    else:
                        count = f"({hiv.lean}{' + 1' if inc else ''} - {lov.lean})"
                if used:
                    index = (var, lname(var), lov.lean, lov.ty)
            elif it[0] == "mcall" and it[2] in ("iter", "iter_mut") and not it[3] and it[1][0] == "path" \
                    and len(it[1][1]) == 1 and it[1][1][0] in env and self.res(env[it[1][1][0]][2]) == ("blocks",):
                base = it[1][1][0]
                count = f"{env[base][1]}.length"
                if var is None:
                    raise ShapeError(f"{ctx.what}: element loop without a variable")
                index = (None, "_i", "0", ("usize",))
                elem = (var, base)
            else:
                listrec = self.list_iter(pat, it, env, ctx)
                if listrec is None:
                    raise ShapeError(f"{ctx.what}: this `for` iterator is outside the subset")
                count = "list"
                if len(listrec) > 5 and listrec[5] is not None:
                    # `.enumerate()`: the position counts from 0
                    index = (listrec[5], lname(listrec[5]), "0", ("usize",))
        clean = strip_logs(body)
        retok = has_return_ok(clean)
        breaks = has_jump(clean, ("break",))
        # a loop that can end (`break`, its last element) AND return from the function: its result is an `Except`
        both = retok and (breaks or count is not None)
        # what the loop changes
        envl = dict(env)
        if elem is not None:
            envl[elem[0]] = ("elem", env[elem[1]][1], "_i", self.collapsed("Block", ctx.what), elem[1])
        names = set()
        self.mutated(clean, envl, ctx, names)
        carried = sorted(n for n in names if n in env and env[n][0] in ("val", "res"))
        returned = [n for n in carried if self.live_after(n, rest_stmts, rest_top, ctx)]
        outs = sorted(n for n in names if n in env and env[n][0] == "uninit")
        # fuel of an open-ended loop: the retry budget in scope
        fuel = None
        if count is None:
            cands = [n for n in carried if self.res(env[n][2])[0] == "cs" and env[n][0] == "val"
                     and self.has_delay_call(clean, n)]
            if len(cands) != 1:
                raise ShapeError(f"{ctx.what}: an open-ended loop needs exactly one retry budget (`Delay`) that it "
                                 f"spends; found {cands}")
            fuel = f"({env[cands[0]][1]} + 1)"
        used_names = self.used_names(clean, ctx)
        if retok:
            # a `return` hands back the `&mut` parameters and the fields of a value-struct `self`
            used_names |= {n for n, _t in ctx.info.outs} | {"self_" + f for f, _t in ctx.info.selfout}
        captured = sorted(n for n in used_names if n in env and env[n][0] in ("val", "res")
                          and n not in carried and n not in outs and not (elem and n == elem[1] and n in carried))
        if elem is not None and elem[1] not in carried and elem[1] not in captured:
            captured.append(elem[1])
        ctx.nloops += 1
        my_n = ctx.nloops
        lname_ = f"{ctx.info.name}_loop{my_n}"

        def lty(n):
            b = env[n]
            t = self.lean_type(b[2], ctx.what)
            if b[0] == "res":
                t = f"SRes ({t})" if " " in t else f"SRes {t}"
            return t
        # the body
        for n in carried:
            envl[n] = (env[n][0], lname(n), env[n][2])
        if index is not None and index[0] is not None:
            envl[index[0]] = ("val", index[1], index[3])
        rec_first = "fuel" if fuel is not None else "todo"
        if listrec is not None:
            rec_first = "_rest"
            if listrec[0] is not None:
                envl[listrec[0]] = ("val", listrec[4] if len(listrec) > 4 else lname(listrec[0]), listrec[2])

        def state_args(envb):
            return [envb[n][1] for n in carried]

        def rec_call(envb):
            args = [rec_first]
            if index is not None:
                args.append(f"({index[1]} + 1)")
            args += state_args(envb)
            return "(" + " ".join([lname_] + self.FIXED_ARGS + ["\x03CAP\x03"] + args) + ")"
        result_box = {"bty": None}

        def exit_text(envb, bv):
            parts = []
            if bv is not None:
                result_box["bty"] = bv.ty if result_box["bty"] is None else self.unify(result_box["bty"], bv.ty, ctx.what)
                parts.append(self.value(bv, ctx))
            for n in returned:
                parts.append(envb[n][1])
            for n in outs:
                if envb[n][0] == "uninit":
                    raise ShapeError(f"{ctx.what}: `{n}` is not assigned on every path that leaves the loop")
                parts.append(envb[n][1])
            if both:
                return f"(pure (Except.ok {tup(parts)}))"
            return f"(pure {tup(parts)})"
        saved_loop, saved_retk = ctx.loop, ctx.retk
        ctx.loop = dict(brk=lambda envb, bv: exit_text(envb, bv), cont=lambda envb: rec_call(envb), retok=retok)
        if both:
            def retk_in_loop(v, envb):
                t = saved_retk(v, envb)
                if not (t.startswith("(pure ") and t.endswith(")")):
                    raise ShapeError(f"{ctx.what}: internal: unexpected shape of the function's end")
                return f"(pure (Except.error {t[6:-1]}))"
            ctx.retk = retk_in_loop
        ctx.used_opts_before = ctx.used_opts
        body_text = self.scoped(body, envl, ctx, lambda envb: rec_call(envb))
        ctx.loop = saved_loop
        ctx.retk = saved_retk
        need_st0 = "st0." in body_text
        # the definition
        caps = [(env[n][1], lty(n)) for n in captured]
        if need_st0:
            caps.append(("st0", "St σ"))
        cap_params = "".join(f" ({n} : {t})" for n, t in caps)
        cap_args = " ".join(n for n, t in caps)
        body_text = body_text.replace("\x03CAP\x03", cap_args).replace("  ", " ")
        rec_types = ["Nat" if listrec is None else listrec[3]] + \
            ([self.lean_type(index[3], ctx.what)] if index is not None else []) + [lty(n) for n in carried]
        if retok and not both:
            rty = ctx.info.rty_text()
        else:
            comp = []
            if result_box["bty"] is not None:
                comp.append(self.lean_type(result_box["bty"], ctx.what))
            comp += [lty(n) for n in returned]
            for n in outs:
                comp.append(self.lean_type(env[n][1], ctx.what))
            rty = "Unit" if not comp else (comp[0] if len(comp) == 1 else "(" + " × ".join(comp) + ")")
            if both:
                rty = f"Except {par(ctx.info.rty_text())} {par(rty)}"
        pats_rest = ([index[1]] if index is not None else []) + [lname(n) for n in carried]
        if fuel is not None:
            zero = f'{self.NS}.panic "{PANIC_FUEL}"'
        else:
            env0 = dict(envl)
            if breaks and result_box["bty"] is not None:
                raise ShapeError(f"{ctx.what}: a counted loop that can `break` with a value is outside the subset")
            zero = exit_text(env0, None)
        sig = f"def {lname_}{self.SIG}{cap_params} : " + " → ".join(rec_types) + f" → {self.MON} {par(rty)}"
        d = (f"/-- loop {my_n} of {ctx.info.doc_name}"
             + (" (fuel: one more than the retry budget it spends)" if fuel is not None else " (one step per element)") + ". -/\n"
             + sig + "\n"
             + "  | " + ", ".join(["0" if listrec is None else "[]"]
                             + ["_" if zero.startswith(self.NS + ".panic") else x for x in pats_rest]) + " => " + zero + "\n"
             + "  | " + ", ".join([rec_first + " + 1" if listrec is None else
                                   (lname(listrec[0]) if listrec[0] is not None else "_") + " :: _rest"] + pats_rest)
             + " =>\n" + body_text + "\n")
        ctx.info.aux.append(d)
        # the call
        first = fuel if fuel is not None else (count if listrec is None else listrec[1])
        call_args = [first] + ([index[2]] if index is not None else []) + [env[n][1] for n in carried]
        call = "(" + " ".join([lname_] + self.FIXED_ARGS + ([cap_args] if cap_args else []) + call_args) + ")"
        if retok and not both:
            return call
        env2 = dict(env)
        names_out = []
        bv = None
        if result_box["bty"] is not None:
            tn = self.tmp()
            names_out.append(tn)
            bv = V(tn, result_box["bty"])
        for n in returned:
            names_out.append(lname(n))
            env2[n] = (env[n][0], lname(n), env[n][2])
        for n in carried:
            if n not in returned:
                env2[n] = ("dead", n)
        for n in outs:
            names_out.append(lname(n))
            env2[n] = ("val", lname(n), env[n][1])
        if both:
            rn = self.tmp()
            vn = self.tmp()
            pat = tup(names_out) if names_out else "_"
            return bind(call, rn, f"(match {rn} with\n| Except.error {vn} => (pure {vn})\n| Except.ok {pat} =>\n{k(env2, bv)})")
        return bind(call, tup(names_out) if names_out else "_", k(env2, bv))

    def list_iter(self, pat, it, env, ctx):
        """hook: `for pat in it` over a list, by structural recursion on it -> (variable or None, Lean text of the
        list, element type, Lean type of the list), or None"""
        return None

    def has_delay_call(self, node, var):
        if isinstance(node, tuple):
            if node and node[0] == "mcall" and node[1] == ("path", [var]):
                return True
            if node and node[0] == "closure":
                return False
            return any(self.has_delay_call(x, var) for x in node)
        if isinstance(node, list):
            return any(self.has_delay_call(x, var) for x in node)
        return False

    # ================================================================== functions
    def mclosure(self, cname, param, body, pctx):
        key = ("closure", pctx.info.name, cname)
        if key in self.sdone:
            return self.sdone[key]
        info = SInfo(f"{pctx.info.name}_{cname}")
        info.doc_name = f"the closure `{cname}` of {pctx.info.doc_name}"
        info.doc = f"the closure `{cname}` in {pctx.info.doc}"
        ctx = SCtx(pctx.what + f": closure {cname}", pctx.impl, pctx.fname)
        ctx.info = info
        ctx.aliases = {param}
        ctx.tag = pctx.tag
        info.fallible = True
        captured = [n for n in self.names_in(strip_logs(body)) if n in () ]
        self.finish_fn(info, ctx, {}, body, [])
        self.sdone[key] = info
        self.sorder.append(key)
        return info

    def mfun(self, key):
        if key in self.sdone:
            return self.sdone[key]
        if key in self.s_in_progress:
            raise ShapeError(f"{key[0]}::{key[1]}: recursion is outside the subset")
        if key not in self.items.fns:
            raise ShapeError(f"function {key[0]}::{key[1]} not found in the scanned files")
        self.s_in_progress.add(key)
        decl = self.items.fns[key]
        what = f"{decl.where}: fn {decl.impl}::{decl.name}"
        ctx = SCtx(what, decl.impl, decl.name)
        lean_name = decl.name if decl.impl in (STATE_IMPL, "SdCard") else f"{decl.impl}_{decl.name}"
        info = SInfo(lean_name)
        info.doc_name = f"`{decl.impl}::{decl.name}`"
        info.doc = f"`{decl.impl}::{decl.name}` ({decl.where})"
        ctx.info = info
        self_kind, params = parse_params(decl, self.items)
        muts = mut_ref_params(decl)
        env = {}
        lean_params = []
        if decl.name in TAGGED_FNS and decl.impl == STATE_IMPL:
            info.tagged = True
            lean_params.append(("tag", "Tag"))
            ctx.tag = "tag"
        elif decl.name in FIXED_TAGS:
            ctx.tag = FIXED_TAGS[decl.name]
        if decl.impl in (STATE_IMPL, "SdCard"):
            ctx.aliases = {"self"} if decl.impl == STATE_IMPL else set()
        elif decl.impl in COLLAPSE and self_kind is not None:
            ct = self.collapsed(decl.impl, what)
            f = COLLAPSE[decl.impl]
            ctx.selfvals = {f: ct[2]}
            env["self_" + f] = ("val", "self_" + f, ct[2])
            lean_params.append(("self_" + f, self.lean_type(ct[2], what)))
            if "mut" in self_kind:
                info.selfout = [(f, ct[2])]
        for pn, pty in params:
            t = pty
            while t[0] == "tref":
                t = t[1]
            if t[0] == "ty" and t[1] in GENERIC_PARAMS:
                env[pn] = ("bus",)
                info.pkinds.append("bus")
                continue
            self.check_local(pn, ctx)
            ty = self.conv_type(pty, f"{what}: parameter {pn}", decl.impl)
            env[pn] = ("val", lname(pn), ty)
            lean_params.append((lname(pn), self.lean_type(ty, what)))
            info.ptypes.append(ty)
            if pn in muts:
                info.pkinds.append("out")
                info.outs.append((pn, ty))
            else:
                info.pkinds.append("val")
        rt = parse_type(decl.ret, what, self.items) if decl.ret else ("ttuple", [])
        if rt[0] == "ty" and rt[1] == "Result":
            info.fallible = True
            info.okty = self.conv_type(rt[2][0], what, decl.impl)
        else:
            info.fallible = False
            info.okty = self.conv_type(rt, what, decl.impl)
        body = parse_fn_body(decl, self.items)
        self.finish_fn(info, ctx, env, body, lean_params)
        self.s_in_progress.discard(key)
        self.sdone[key] = info
        self.sorder.append(key)
        return info

    def finish_fn(self, info, ctx, env, body, lean_params):
        what = ctx.what
        info.params = lean_params
        T = self

        def rty_text():
            comp = []
            if T.res(info.okty) != ("unit",):
                comp.append(T.lean_type(info.okty, what))
            comp += [T.lean_type(t, what) for _f, t in info.selfout]
            comp += [T.lean_type(t, what) for _n, t in info.outs]
            return "Unit" if not comp else (comp[0] if len(comp) == 1 else "(" + " × ".join(comp) + ")")
        info.rty_text = rty_text

        def retk(v, envb):
            comp = []
            if T.res(info.okty) != ("unit",):
                if v is None:
                    raise ShapeError(f"{what}: a value is expected at the end")
                T.unify(v.ty, info.okty, what)
                comp.append(T.value(v, ctx))
            elif v is not None:
                T.unify(v.ty, ("unit",), what)
            for f, t in info.selfout:
                comp.append(envb["self_" + f][1])
            for n, t in info.outs:
                comp.append(envb[n][1])
            return f"(pure {tup(comp)})"
        ctx.retk = retk
        text = self.tail(body, env, ctx)
        if ctx.used_opts or "st0." in text:
            text = bind(f"{self.NS}.get", "st0", text)
        info.body = self.resolve_placeholders(text, what)
        info.aux = [self.resolve_placeholders(a, what) for a in info.aux]
        info.rty = rty_text()


class SdFull(SdStmts, Sd):
    pass


# --------------------------------------------------------------------------------------
# Output
# --------------------------------------------------------------------------------------

def indent_text(s, base=2):
    """indentation follows the bracket depth"""
    out, depth = [], 0
    for line in s.split("\n"):
        line = line.strip()
        if not line:
            continue
        lead = 0
        for c in line:
            if c in ")]}":
                lead += 1
            else:
                break
        out.append(" " * (base + 2 * max(0, min(depth - lead, 24))) + line)
        for c in line:
            if c in "([{":
                depth += 1
            elif c in ")]}":
                depth -= 1
    return "\n".join(out)


LEAN_HEADER_SD = '''/-!
# Machine translation of the SD-card driver (`SdCardInner`, `Delay`: sdcard/mod.rs) into the model's `S σ` monad

Every definition after the prelude is produced by `tools/translate_sd.py` (called from tools/extract.py,
`gen_funs_sd`) from the text of `src/sdcard/mod.rs` (and `proto.rs`, `blockdevice.rs` for the types it uses); nothing
below the prelude is written by hand.  `Props/C12GenM`, `C13GenM`, `C14GenM` prove each definition EQUAL to the
hand-written model `Model/Sd.lean` as a function `St σ → SRes α × St σ`, for every bus `B : BusOps σ`, so an edit of the
Rust function changes the definition here and the equality no longer checks.  Pure sub-expressions are translated by
`tools/translate.py` (same operator table as `Gen/Funs.lean`); pure callees that `Gen/Funs.lean` holds (`crc7`,
`crc16`, the CSD capacity functions) are referred to as `Funs.<name>`, other pure callees (`Delay::new*`,
`CsdV1::new`, `CsdV2::csd_ver`, ...) are translated here.  What is outside the subset makes the generator stop
(ShapeError, exit status 3, the message names the function).

## The trusted base added by this file (tables at the top of translate_sd.py, prelude below)

### State: `self` of `SdCardInner` is the model's `St σ`

* `self.card_type ↦ St.cardType` (read with `S.get` where it is used, every time; `self.card_type = c` is
  `setCardType c`); `self.options.use_crc ↦ St.useCrc`, `self.options.acquire_retries ↦ St.acquireRetries`: the
  generator CHECKS that no function of sdcard/mod.rs assigns `options` and reads them once, when the function starts
  (`st0`).  `enum CardType` / `enum Error` are the model's `CardType` / `SdErr`, variant for variant.
* `self.spi` and `self.delayer` are the bus `St.bus` seen through `B : BusOps σ`.  They occur only as
  `self.spi.transfer(&mut r, &w)` / `.write(w)` / `.transfer_in_place(b)` (`spiTransfer` / `spiWrite` /
  `spiTransferInPlace` below: ONE `B.xfer` of the bytes that go out; the `&mut` buffer becomes what came back;
  `transfer` is only used with buffers of equal length) and as `&mut self.delayer` handed to `Delay::delay`, whose
  `delayer.delay_us(n)` is `delayUs B n` (one `B.delay`; the model does not keep the number of microseconds — it is
  the constant `Gen.DELAY_US`).  The value of an SPI error is opaque: an SPI result is `Option` here (`none` = error)
  and must go through `.map_err(|_| Error::X)?` (`S.ofOption SdErr.X`; a closure that looks at the error is rejected).
* GHOST: the model logs every transaction as an `Event`.  Which event a transaction is logged as is fixed by the
  `Tag` argument of the three primitives (`Tag.event`); `transfer_byte` and `write_bytes` take the tag as an extra
  parameter and each caller passes the one listed in CALL_TAGS (`read_byte`: poll, `write_byte`: byte,
  `card_command`: cmd, `write_data`: dataOut); `transfer_bytes` is always dataIn.  A call site that is not listed is
  rejected.  Tags only reach `St.events`; the bytes on the bus do not depend on them.

### Values

* Single-field structs are their field: `Delay` is its `retries_left` (a counter, as in the model), `Block` its
  `contents`, `CsdV1` / `CsdV2` their `data` (the generator checks that the struct still has exactly that field);
  `T::default()` of such a struct over `[u8; n]` is `n` zero bytes (`#[derive(Default)]`).  `&[Block]` /
  `&mut [Block]` is a `List (List UInt8)`; `BlockIdx` / `BlockCount` are `Nat` (as in `Gen/Funs.lean`); `enum Csd` is
  the inductive type `Csd` below.
* A `&mut` buffer parameter (`&mut [u8]`, `&mut [Block]`) is handed back: the Lean function returns its new contents
  together with (after) the Rust value; a `&mut self` method of a value struct that touches the bus (`Delay::delay`)
  returns the new `self`.  A call with such an argument rebinds the variable (or `List.set`s the element) it was
  given.  When the OUTCOME of such a call is kept (`result = self.read_data(&mut block.contents)`) the buffer keeps its
  old contents if the call failed: what a failed call leaves in its buffer is not modelled (nothing reads it).
* `for block in blocks.iter_mut()` / `.iter()`: `block` is `getBlock blocks _i`; writes through it are `List.set`.

### Control

* A call that returns `Result` is a computation in `S σ`; `e?` is monadic bind; `return Err(e)` / a final `Err(e)`
  is `S.fail e` wherever it stands (also inside loops, `if`, `match`); `Ok(v)` at the end is `pure v`.
* `let r = e;` / `r = e;` without `?`, `match e { Ok(..) | Err(..) }` on a call: `S.attempt e` — the outcome as a
  value of `SRes` (the model's own `S.attempt`), the state kept.  `r.is_err()`, `r.map(|_| ())`, `r.and(r2)`, `r?`
  and a final `r` (`S.lift r`) are `SRes.isErr` / `SRes.map` / `SRes.and` / `S.lift`.  As in the model, a PANIC
  caught this way is kept as a value and passed on when the outcome is used (`isErr` counts it as an error, so loops
  stop); Rust would unwind at once and not run the statements in between.  The equality theorems show that nothing
  that is attempted in this file can panic (`Lemmas.GenSd.NoPanic`), so the difference is never observed.
  `.and_then(|_| m)` / `.map(|_| v)` directly on a call are bind.
* `if` / `match` statements whose branches only assign locals are joined
  (`(if c then .. pure (x, y) else ..) >>= fun (x, y) => rest`); with a `break` / `continue` / `return Ok(..)` inside,
  the rest of the block is copied into the branches that continue.  `a && b` with an effect in `b` evaluates `b`
  only if `a` holds.
* Loops.  Every loop is one recursive definition `<fn>_loop<k>`; its arguments are the variables it reads, then the
  recursion argument, then the variables it assigns.  `break` returns the break value, the assigned variables THAT
  ARE READ AFTER THE LOOP and the variables first assigned inside it; `return Ok(v)` inside a loop without `break`
  ends the function.
  - `for x in lo..hi`, `for b in blocks.iter()/iter_mut()`: structural recursion on the number of elements left
    (no fuel).
  - `loop`, `while`, `for x in lo..`: structural recursion on a `fuel` argument; `fuel = 0` answers
    `S.panic "loop fuel exhausted"`.  Such a loop must spend exactly one `Delay` of the enclosing function
    (`delay.delay(..)?`), and the call passes `retries_left + 1` as fuel: ALL six open-ended loops of
    sdcard/mod.rs are of this kind, none needs fuel from the caller, and no translated function has a fuel
    parameter.  The equality theorems show that the fuel is never exhausted (the loop IS the model's recursion on the
    retry budget).
* The closure `let f = |s: &mut Self| { .. }; f(self)` is the definition `acquire_f` (`s` is `self`).
* Logging macros are skipped (their arguments are not uses).

### Arithmetic

`u8`/`u16`/`u32`/`usize` are `Nat`; casts, masks and shifts as in `Gen/Funs.lean`.  An operation that can overflow or
an index that can be out of range is CHECKED where it stands: `if <no overflow> then .. else S.panic "<message>"`
(`attempt to multiply / add / subtract with overflow`, `index out of bounds`: the debug-build behaviour, which is the
model's).  The side conditions of pure callees (`Funs.*_ok`) are not repeated here (they are the subject of
`Props/C12Gen`).
-/
'''

PRELUDE_SD = '''/-! ### Prelude (written by hand in tools/translate_sd.py: the trusted bindings) -/

/-- `b[i]` of a byte array or slice. -/
def rdByte (b : List UInt8) (i : Nat) : Nat := (b.getD i 0).toNat

/-- `blocks[i].contents` of a slice of blocks. -/
def getBlock (bs : List (List UInt8)) (i : Nat) : List UInt8 := bs.getD i []

/-- a Rust panic -/
def _root_.Sdmmc.Model.Sd.S.panic {σ α : Type} (msg : String) : S σ α := fun s => (.panic msg, s)

/-- `r.map_err(|_| e)?` of an SPI result (`none` = the SPI error, whose value is opaque) -/
def _root_.Sdmmc.Model.Sd.S.ofOption {σ α : Type} (e : SdErr) : Option α → S σ α
  | some a => pure a
  | none => S.fail e

/-- `r.is_err()` of an outcome held in a variable (a panic that was caught by `S.attempt` counts: it is passed on
when the outcome is used) -/
def _root_.Sdmmc.Model.Sd.SRes.isErr {α : Type} : SRes α → Bool
  | .ok _ => false
  | _ => true

/-- `r.map(f)` -/
def _root_.Sdmmc.Model.Sd.SRes.map {α β : Type} (f : α → β) : SRes α → SRes β
  | .ok a => .ok (f a)
  | .err e => .err e
  | .panic p => .panic p

/-- `r.and(r2)` -/
def _root_.Sdmmc.Model.Sd.SRes.and {α β : Type} : SRes α → SRes β → SRes β
  | .ok _, r => r
  | .err e, _ => .err e
  | .panic p, _ => .panic p

/-- the `&mut` argument after a call whose outcome is kept: the new contents, or the old ones when the call failed
(what a failed call leaves in its buffer is not modelled) -/
def _root_.Sdmmc.Model.Sd.SRes.outOr {α : Type} (old : α) : SRes α → α
  | .ok a => a
  | _ => old

/-- the outcome of such a call without the buffer -/
def _root_.Sdmmc.Model.Sd.SRes.void {α : Type} : SRes α → SRes Unit
  | .ok _ => .ok ()
  | .err e => .err e
  | .panic p => .panic p

/-- Ghost tags: which `Event` of the model's log a transaction is recorded as.  They do not reach the bus. -/
inductive Tag | poll | byte | cmd | dataOut | dataIn
  deriving DecidableEq, Repr

def Tag.event (t : Tag) (mosi : List UInt8) (miso : Option (List UInt8)) : Event :=
  match t with
  | .poll => .poll (match miso with | some m => (m.getD 0 0).toNat | none => 256)
  | .byte => .byte (mosi.getD 0 0)
  | .cmd => .cmd mosi
  | .dataOut => .dataOut mosi
  | .dataIn => .dataIn mosi.length

/-- One `SpiDevice` transaction: `mosi` goes out, MISO comes back (`none`: the SPI error); the event is logged. -/
def spi {σ : Type} (B : BusOps σ) (t : Tag) (mosi : List UInt8) : S σ (Option (List UInt8)) := fun s =>
  let (b', r) := B.xfer s.bus mosi
  (.ok r, { s with bus := b', events := t.event mosi r :: s.events })

/-- `self.spi.transfer(&mut read, &write)`: `write` goes out, `read` becomes what came back. -/
def spiTransfer {σ : Type} (B : BusOps σ) (t : Tag) (read write : List UInt8) : S σ (Option (List UInt8)) := spi B t write

/-- `self.spi.write(out)`. -/
def spiWrite {σ : Type} (B : BusOps σ) (t : Tag) (out : List UInt8) : S σ (Option Unit) :=
  spi B t out >>= fun r => pure (r.map fun _ => ())

/-- `self.spi.transfer_in_place(in_out)`: the buffer goes out and becomes what came back. -/
def spiTransferInPlace {σ : Type} (B : BusOps σ) (t : Tag) (in_out : List UInt8) : S σ (Option (List UInt8)) := spi B t in_out

/-- `delayer.delay_us(us)` (the model's bus has one delay step; its length is `Gen.DELAY_US`). -/
def delayUs {σ : Type} (B : BusOps σ) (us : Nat) : S σ Unit := fun s =>
  (.ok (), { s with bus := B.delay s.bus, delays := s.delays + 1 })

/-- `self.card_type = c`. -/
def setCardType {σ : Type} (c : Option CardType) : S σ Unit := fun s => (.ok (), { s with cardType := c })

/-! ### Translated definitions -/
'''


def render_sd(T):
    lines = ["import Sdmmc.Model.Sd\nimport Sdmmc.Gen.Funs\n", LEAN_HEADER_SD,
             "set_option linter.unusedVariables false\n", "namespace Sdmmc.Gen.FunsSd\n",
             "open Sdmmc.Model Sdmmc.Model.Sd Sdmmc.Gen\n", PRELUDE_SD]
    for kind, name in T.types_used:
        if kind == "enum":
            vs = []
            for vname, payload in T.items.enums[name]:
                vs.append(f"  | {vname} : " + "".join(
                    T.lean_type(T.conv_type(parse_type(p, name, T.items), name), name) + " → " for p in payload) + name + "\n")
            lines.append(f"/-- `enum {name}`. -/\ninductive {name} where\n" + "".join(vs) + "  deriving DecidableEq, Repr\n")
        else:
            raise ShapeError(f"struct {name}: plain structs are outside the subset of this file")
    for key in T.order:
        info = T.done[key]
        ps = "".join(f" ({n} : {T.lean_type(t, info.name)})" for n, t in info.params)
        rt = T.lean_type(info.ret, info.name)
        lines.append(f"/-- {info.doc}. -/\ndef {info.name}{ps} : {rt} :=\n  {translate.pretty(info.body)}\n")
        if info.okbody:
            lines.append(f"/-- No overflow, no out-of-range index, no division by zero in {info.doc}. -/\n"
                         f"def {info.name}_ok{ps} : Prop :=\n  {info.okbody}\n")
    for key in T.sorder:
        info = T.sdone[key]
        for a in info.aux:
            head, _, body = a.partition("=>\n")
            # the loop definitions: header lines as they are, the body indented
            parts = a.split("\n")
            hdr = [ln for ln in parts[:4]]
            lines.append("\n".join(hdr) + "\n" + indent_text("\n".join(parts[4:]), 4) + "\n")
        ps = "".join(f" ({n} : {t})" for n, t in info.params)
        lines.append(f"/-- {info.doc}. -/\ndef {info.name}{T.SIG}{ps} : {T.MON} {par(info.rty)} :=\n"
                     + indent_text(info.body, 2) + "\n")
    lines.append("end Sdmmc.Gen.FunsSd\n")
    return "\n".join(lines)


def generate_sd(read_src, targets=None):
    """read_src(rel) -> text.  Returns (lean text, summary dict)."""
    items = Items()
    for f in SD_FILES:
        items.scan_file(f, read_src(f))
    T = SdFull(items)
    for key in (TARGETS if targets is None else targets):
        if T.is_monadic(key):
            T.mfun(key)
        else:
            T.translate_fn(key)
    text = render_sd(T)
    summary = {("::".join(str(x) for x in k)): [T.sdone[k].name, T.sdone[k].body, T.sdone[k].aux] for k in T.sorder}
    summary.update({("::".join(str(x) for x in k)): [T.done[k].name, T.done[k].body] for k in T.order})
    return text, summary


if __name__ == "__main__":
    import os
    import sys
    repo = os.environ.get("VERIF_REPO", "/repo")

    def rd(rel):
        with open(os.path.join(repo, "src", rel), encoding="utf-8") as f:
            return f.read()
    want = None
    if len(sys.argv) > 1:
        want = [tuple(a.split("::")) for a in sys.argv[1:]]
    try:
        text, _ = generate_sd(rd, want)
    except ShapeError as e:
        print(f"translate_sd: {e}", file=sys.stderr)
        sys.exit(3)
    sys.stdout.write(text)
