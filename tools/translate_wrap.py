#!/usr/bin/env python3
"""translate_wrap.py -- the glue layer: the RAII wrappers `File` (filesystem/files.rs), `Directory`
(filesystem/directory.rs), `Volume` (lib.rs), the `embedded_io::{Read, Write, Seek}` implementations for `File`,
`embedded_io::Error for Error`, and `VolumeManager::open_volume`, translated into the model's `M` monad on top of
the machine translation of the manager itself (`Gen/FunsMgr.lean`).

Own module: rustfront.py / translate_mgr.py are imported as libraries and not edited.

What is particular to this layer, and done here:

* METHOD RESOLUTION THE WAY rustc DOES IT (`Resolver.probe`): the candidate receiver types are the receiver's type
  and what it dereferences to (`&mut File`, `File`); at each candidate `U` the receiver is tried by value (`U`),
  then auto-referenced (`&U`), then (`&mut U`); at each of these, first the INHERENT methods whose `self` parameter has
  exactly that type, then the methods of the TRAITS IN SCOPE (the `use` lines of the file, the traits the file defines,
  the language prelude) implemented for the type.  Nothing is looked up by name alone.  A path call `File::read(..)` /
  `Self::flush(..)` takes the inherent associated function first, then a trait's.
* A call that resolves to the function being translated (or to one that is being translated further up) is an
  unbounded recursion, and is REJECTED: `ShapeError("unbounded recursion: <impl Read for File>::read calls itself")`.
* DESTRUCTORS: a binding whose type has a `Drop` implementation and which is still owned when the function ends gets
  `<impl Drop for T>::drop` called there (in reverse order of declaration); `core::mem::forget(x)`, passing `x` by
  value, returning it, are moves.
* Signed integers, `try_into` / `checked_neg` / `checked_add` / `i64::from` / `into` / `as` with their exact ranges.
"""
import os
import re
import sys

sys.path.insert(0, os.path.dirname(os.path.abspath(__file__)))
import rustfront
from rustfront import ShapeError, Items, FnDecl, Tok, lex, match_table, split_commas, parse_fn_body, parse_params, \
    parse_type

WRAP_FILES = ["filesystem/files.rs", "filesystem/directory.rs", "lib.rs", "volume_mgr.rs", "filesystem/handles.rs",
              "filesystem/filename.rs", "filesystem/mod.rs"]

# (impl type, trait or None, fn) in the order of the output
TARGETS = [
    ("RawFile", None, "to_file"),
    ("File", None, "new"), ("File", None, "read"), ("File", None, "write"), ("File", None, "is_eof"),
    ("File", None, "seek_from_current"), ("File", None, "seek_from_start"), ("File", None, "seek_from_end"),
    ("File", None, "length"), ("File", None, "offset"), ("File", None, "to_raw_file"), ("File", None, "flush"),
    ("File", "Drop", "drop"), ("File", None, "close"),
    ("File", "Read", "read"), ("File", "Write", "write"), ("File", "Write", "flush"), ("File", "Seek", "seek"),
    ("RawDirectory", None, "to_directory"),
    ("Directory", None, "new"), ("Directory", None, "open_dir"), ("Directory", None, "change_dir"),
    ("Directory", None, "find_directory_entry"), ("Directory", None, "iterate_dir"),
    ("Directory", None, "iterate_dir_lfn"), ("Directory", None, "open_file_in_dir"),
    ("Directory", None, "delete_file_in_dir"), ("Directory", None, "make_dir_in_dir"),
    ("Directory", None, "to_raw_directory"), ("Directory", "Drop", "drop"), ("Directory", None, "close"),
    ("RawVolume", None, "to_volume"),
    ("Volume", None, "new"), ("Volume", None, "open_root_dir"), ("Volume", None, "to_raw_volume"),
    ("Volume", "Drop", "drop"), ("Volume", None, "close"),
    ("VolumeManager", None, "open_volume"),
    ("Error", "Error", "kind"),
]

# ----------------------------------------------------------------------------------------------------------------
# Hand-written tables (trusted base, repeated in the header of the generated file)
# ----------------------------------------------------------------------------------------------------------------

# the manager: its methods are not translated here; a call is a call of the definition in Gen/FunsMgr.lean
MANAGER = "VolumeManager"
# of the manager's own methods, the ones that ARE translated here (they only wrap)
MANAGER_OWN = {"open_volume"}
# model types standing for Rust types (the same table as translate_mgr.py: XENUMS, VALREC)
MODEL_TYPES = {"DirEntry": "DirEntry", "Mode": "Mode", "Error": "Err"}
# variants of `Error` whose payload the model does not keep (`DeviceError(E)`: the device's own error type)
ERASED_PAYLOAD = {("Error", "DeviceError")}
# traits that bound a generic parameter: what the parameter is represented by
BOUND_REP = {"ToShortFileName": ("name",)}
# `embedded_io` 0.6.1 and `core`: enums, and the methods of the traits (all of them: a provided method takes part in
# method resolution exactly like a required one)
EXT_ENUMS = {
    "SeekFrom": [("Start", [("u", 64)]), ("End", [("i", 64)]), ("Current", [("i", 64)])],
    "ErrorKind": [(v, []) for v in
                  ["Other", "NotFound", "PermissionDenied", "ConnectionRefused", "ConnectionReset", "ConnectionAborted",
                   "NotConnected", "AddrInUse", "AddrNotAvailable", "BrokenPipe", "AlreadyExists", "InvalidInput",
                   "InvalidData", "TimedOut", "Interrupted", "Unsupported", "OutOfMemory", "WriteZero"]],
}
EXT_TRAITS = {   # trait -> {method: self kind}
    "Read": {"read": "&mutself", "read_exact": "&mutself"},
    "BufRead": {"fill_buf": "&mutself", "consume": "&mutself"},
    "Write": {"write": "&mutself", "flush": "&mutself", "write_all": "&mutself", "write_fmt": "&mutself"},
    "Seek": {"seek": "&mutself", "rewind": "&mutself", "stream_position": "&mutself"},
    "ErrorType": {},
    "Error": {"kind": "&self"},
    "Drop": {"drop": "&mutself"},
    "Debug": {"fmt": "&self"},
    "Format": {"format": "&self"},
    "From": {"from": None},
}
# where the external traits live: `use` must name them through this path for them to be in scope (`crate::Error`, the
# enum, is not `embedded_io::Error`, the trait)
EXT_TRAIT_HOME = {"Read": "embedded_io", "BufRead": "embedded_io", "Write": "embedded_io", "Seek": "embedded_io",
                  "ErrorType": "embedded_io", "Error": "embedded_io", "Debug": "core", "Format": "defmt"}
PRELUDE_TRAITS = {"Drop", "From", "Into", "TryFrom", "TryInto", "Clone", "Copy", "PartialEq", "Eq", "Default",
                  "Iterator", "FnMut", "Fn", "FnOnce"}
UNWRAP_MSG = "called `Result::unwrap()` on an `Err` value"

INT_RANGE = {}
for _b in (8, 16, 32, 64):
    INT_RANGE[("u", _b)] = (0, 2 ** _b - 1)
    INT_RANGE[("i", _b)] = (-2 ** (_b - 1), 2 ** (_b - 1) - 1)
INT_RANGE[("usize",)] = (0, 2 ** 32 - 1)


# ----------------------------------------------------------------------------------------------------------------
# Items, impl block by impl block
# ----------------------------------------------------------------------------------------------------------------

class Impl:
    def __init__(self, file, trait, ty):
        self.file, self.trait, self.ty = file, trait, ty
        self.fns = {}     # name -> Fn
        self.assoc = {}   # name -> type tokens

    def label(self):
        return f"<impl {self.trait} for {self.ty}>" if self.trait else self.ty


class Fn:
    def __init__(self, impl, decl, bounds):
        self.impl, self.decl, self.bounds = impl, decl, bounds
        self.name = decl.name

    def key(self):
        return (self.impl.ty, self.impl.trait, self.name)

    def label(self):
        return f"{self.impl.label()}::{self.name}"


def _is(toks, j, k, s=None):
    return j < len(toks) and toks[j].k == k and (s is None or toks[j].s == s)


def _skip_generics(toks, mt, j, where):
    if not _is(toks, j, "p", "<"):
        return j
    depth = 0
    while j < len(toks):
        t = toks[j]
        if t.k == "p" and t.s == "<":
            depth += 1
        elif t.k == "p" and t.s == ">":
            depth -= 1
        elif t.k == "p" and t.s == ">>":
            depth -= 2
        elif t.k == "p" and t.s in rustfront.OPEN:
            j = mt[j]
        j += 1
        if depth <= 0:
            return j
    raise ShapeError(f"{where}: unclosed generics")


class BoundName(str):
    """the trait bounding a generic parameter; `.args`: the tokens between the parentheses of `FnMut(..)`"""
    args = None


def _bounds(toks, where):
    """`N: ToShortFileName, F: FnMut(&DirEntry)` -> {N: ToShortFileName, F: FnMut}"""
    out = {}
    for part in split_commas(toks, where):
        if len(part) >= 3 and part[0].k == "id" and part[1].k == "p" and part[1].s == ":":
            names = []
            args = None
            for i, t in enumerate(part[2:]):
                if t.k == "p" and t.s in ("(", "<", "+"):
                    if t.s == "(":
                        args = part[2 + i + 1:-1] if part[-1].k == "p" and part[-1].s == ")" else None
                    break
                if t.k == "id":
                    names.append(t.s)
            if names:
                b = BoundName(names[-1])
                b.args = args
                out[part[0].s] = b
    return out


def _attrs_gate(attr):
    a = attr.replace(" ", "")
    return a.startswith("cfg(") and not a.startswith("cfg_attr")


def _use_paths(toks, where):
    """the paths a `use` tree brings in: `a::{b, c::d as e, self}` -> [a, b], [a, c, d], [a]"""
    out = []

    def tree(i, prefix):
        path = list(prefix)
        while i < len(toks):
            t = toks[i]
            if t.k == "id" and t.s == "as":
                i += 2
                continue
            if t.k == "id":
                if t.s != "self" or not path:
                    path.append(t.s)
                i += 1
            elif t.k == "p" and t.s == "::":
                i += 1
            elif t.k == "p" and t.s == "*":
                path.append("*")
                i += 1
            elif t.k == "p" and t.s == "{":
                i += 1
                while not (toks[i].k == "p" and toks[i].s == "}"):
                    i = tree(i, path)
                    if toks[i].k == "p" and toks[i].s == ",":
                        i += 1
                return i + 1
            elif t.k == "p" and t.s in (",", "}"):
                break
            else:
                raise ShapeError(f"{where}: cannot read this `use`")
        out.append(path)
        return i
    tree(0, [])
    return out


def scan_impls(rel, text):
    """-> ([Impl], names imported by `use`, traits defined, glob import seen)"""
    toks = lex(text, rel)
    mt = match_table(toks, rel)
    impls, used, traits, glob = [], set(), set(), False
    i, n = 0, len(toks)
    gated = False
    while i < n:
        t = toks[i]
        if t.k == "p" and t.s == "#":
            j = i + 1
            if _is(toks, j, "p", "!"):
                j += 1
            if not _is(toks, j, "p", "["):
                raise ShapeError(f"{rel}: stray # at offset {t.pos}")
            if _attrs_gate("".join(x.s for x in toks[j + 1:mt[j]])):
                gated = True
            i = mt[j] + 1
            continue
        if t.k == "id" and t.s == "use":
            j = i
            while not _is(toks, j, "p", ";"):
                j += 1
            for path in _use_paths(toks[i + 1:j], rel):
                if path[-1] == "*":
                    glob = True
                else:
                    used.add(tuple(path))
            i = j + 1
            gated = False
            continue
        if t.k == "id" and t.s == "trait" and _is(toks, i + 1, "id"):
            traits.add(toks[i + 1].s)
            i += 2
            continue
        if t.k == "id" and t.s == "impl":
            j = _skip_generics(toks, mt, i + 1, rel)
            before, cur = None, []
            k = j
            while k < n and not _is(toks, k, "p", "{") and not _is(toks, k, "id", "where"):
                if _is(toks, k, "id", "for"):
                    before, cur = cur, []
                elif _is(toks, k, "p", "<"):
                    k = _skip_generics(toks, mt, k, rel) - 1
                elif toks[k].k == "id":
                    cur.append(toks[k].s)
                elif toks[k].k == "p" and toks[k].s in ("(", "["):
                    cur.append("?")
                    k = mt[k]
                k += 1
            while k < n and not _is(toks, k, "p", "{"):
                if toks[k].k == "p" and toks[k].s in ("(", "["):
                    k = mt[k]
                k += 1
            if not cur:
                raise ShapeError(f"{rel}: impl without a type")
            im = Impl(rel, before[-1] if before else None, cur[-1])
            if not gated:
                _scan_block(im, toks[k + 1:mt[k]], rel)
                impls.append(im)
            i = mt[k] + 1
            gated = False
            continue
        if t.k == "p" and t.s in rustfront.OPEN:
            i = mt[i] + 1
            gated = False
            continue
        if t.k == "p" and t.s == ";":
            gated = False
        i += 1
    return impls, used, traits, glob


def _scan_block(im, toks, rel):
    mt = match_table(toks, rel)
    i, n = 0, len(toks)
    gated = False
    while i < n:
        t = toks[i]
        if t.k == "p" and t.s == "#":
            j = i + 1
            if _is(toks, j, "p", "!"):
                j += 1
            if _attrs_gate("".join(x.s for x in toks[j + 1:mt[j]])):
                gated = True
            i = mt[j] + 1
            continue
        if t.k == "id" and t.s == "type" and _is(toks, i + 1, "id") and _is(toks, i + 2, "p", "="):
            j = i + 3
            while not _is(toks, j, "p", ";"):
                j += 1
            im.assoc[toks[i + 1].s] = toks[i + 3:j]
            i = j + 1
            gated = False
            continue
        if t.k == "id" and t.s == "fn":
            name = toks[i + 1].s
            where = f"{rel}: fn {name}"
            g0 = i + 2
            j = _skip_generics(toks, mt, g0, where)
            bounds = _bounds(toks[g0 + 1:j - 1], where) if j > g0 else {}
            if not _is(toks, j, "p", "("):
                raise ShapeError(f"{where}: no parameter list")
            params = toks[j + 1:mt[j]]
            j = mt[j] + 1
            ret = []
            if _is(toks, j, "p", "->"):
                k = j + 1
                while k < n and not _is(toks, k, "p", "{") and not _is(toks, k, "p", ";") and not _is(toks, k, "id", "where"):
                    if toks[k].k == "p" and toks[k].s in ("(", "["):
                        k = mt[k]
                    k += 1
                ret = toks[j + 1:k]
                j = k
            if _is(toks, j, "id", "where"):
                k = j + 1
                while k < n and not _is(toks, k, "p", "{") and not _is(toks, k, "p", ";"):
                    if toks[k].k == "p" and toks[k].s in ("(", "["):
                        k = mt[k]
                    k += 1
                bounds.update(_bounds(toks[j + 1:k], where))
                j = k
            if _is(toks, j, "p", "{"):
                if not gated and name not in im.fns:
                    im.fns[name] = Fn(im, FnDecl(rel, im.ty, name, params, ret, toks[j + 1:mt[j]]), bounds)
                i = mt[j] + 1
            else:
                i = j + 1
            gated = False
            continue
        if t.k == "p" and t.s in rustfront.OPEN:
            i = mt[i] + 1
            continue
        if t.k == "p" and t.s == ";":
            gated = False
        i += 1


# ----------------------------------------------------------------------------------------------------------------
# Types
# ----------------------------------------------------------------------------------------------------------------
# ("u",bits) ("i",bits) ("usize",) ("bool",) ("unit",) ("slice",) ("str",) ("adt",Name) ("ref",T) ("refmut",T)
# ("result",T,E) ("option",T) ("name",) ("tvar",Name) ("never",)

def peel(t):
    while t[0] in ("ref", "refmut"):
        t = t[1]
    return t


def show_ty(t):
    k = t[0]
    if k in ("u", "i"):
        return f"{k}{t[1]}"
    if k == "adt":
        return t[1]
    if k == "ref":
        return "&" + show_ty(t[1])
    if k == "refmut":
        return "&mut " + show_ty(t[1])
    if k == "result":
        return f"Result<{show_ty(t[1])}, {show_ty(t[2])}>"
    if k == "option":
        return f"Option<{show_ty(t[1])}>"
    if k == "slice":
        return "[u8]"
    if k == "unit":
        return "()"
    if k == "tvar":
        return t[1]
    return k


class Val:
    """kind: 'val' (a Lean term of the representation type), 'comp' (an `M` computation not yet run; for a `Result`
    type its error is the monad's), 'ok' (`Ok(v)`), 'opt' (a Lean `Option` standing for an `Option` or for a `Result`
    whose error carries nothing; `err` = the error it has been given by `ok_or` / `map_err`), 'res' (a `Res` value held
    in a variable), 'mgr' (the manager reference: erased)"""

    def __init__(self, kind, text, ty, err=None, outs=(), var=None):
        self.kind, self.text, self.ty, self.err, self.outs, self.var = kind, text, ty, err, tuple(outs), var


class Env:
    def __init__(self, vars=None, live=(), order=()):
        self.vars = dict(vars or {})      # rust name -> (lean name, type, kind)
        self.live = tuple(live)           # owned bindings with a destructor, in order of declaration

    def set(self, name, lean, ty, kind="val"):
        e = Env(self.vars, self.live)
        e.vars[name] = (lean, ty, kind)
        return e

    def own(self, name):
        e = Env(self.vars, self.live)
        e.live = tuple(x for x in self.live if x != name) + (name,)
        return e

    def move(self, name):
        return Env(self.vars, tuple(x for x in self.live if x != name))


class FnInfo:
    def __init__(self):
        self.name = self.doc = None
        self.params = []      # (lean name, lean type)
        self.ret = None       # lean type of the value
        self.pure = True
        self.fuel = False
        self.ext = []         # untranslated manager methods used: (name, lean type)
        self.tvars = []
        self.outs = []        # rust names of `&mut [u8]` parameters, returned after the value
        self.self_out = False
        self.ret_ty = None
        self.body = None
        self.calls = []


def atom(t):
    t = t.strip()
    if re.fullmatch(r"[\w.']+", t) or (t.startswith("(") and _balanced(t)):
        return t
    return f"({t})"


def _balanced(t):
    d = 0
    for i, c in enumerate(t):
        if c == "(":
            d += 1
        elif c == ")":
            d -= 1
            if d == 0 and i != len(t) - 1:
                return False
    return d == 0


# ----------------------------------------------------------------------------------------------------------------
# The translator
# ----------------------------------------------------------------------------------------------------------------

class Wrap:
    FILES = WRAP_FILES
    MANAGER_OWN = MANAGER_OWN

    def __init__(self, read_src, mgr_text):
        self.items = Items()
        self.impls = []
        self.scope = {}     # file -> traits in scope
        self.known_traits = set(EXT_TRAITS)
        per_file = {}
        for f in self.FILES:
            text = read_src(f)
            self.items.scan_file(f, text)
            impls, used, traits, glob = scan_impls(f, text)
            self.impls += impls
            per_file[f] = (used, traits, glob)
            self.known_traits |= traits
        for im in self.impls:
            if im.trait:
                self.known_traits.add(im.trait)
        for f, (used, traits, glob) in per_file.items():
            if glob:
                self.scope[f] = set(self.known_traits)
                continue
            named = set()
            for path in used:
                tr = path[-1]
                home = EXT_TRAIT_HOME.get(tr)
                if home is None or path[0] == home or (home == "core" and path[0] == "std"):
                    named.add(tr)
            self.scope[f] = (named | traits | PRELUDE_TRAITS) & self.known_traits
        self.droppable = {im.ty for im in self.impls if im.trait == "Drop"}
        self.mgr_defs = self.read_mgr(mgr_text)
        self.mgr2_defs = {}      # the same for Gen/FunsMgr2.lean (tools/translate_mgr2.py), when it is given
        self.uses_mgr2 = False
        self.done, self.order, self.stack = {}, [], []
        self.counter = 0

    # -- what Gen/FunsMgr.lean offers ---------------------------------------------------------------------------
    @staticmethod
    def read_mgr(text):
        out = {}
        for m in re.finditer(r"^def VolumeManager_(\w+)((?: \([^()]*\))*) : (.*) :=$", text, re.M):
            params = re.findall(r"\((\w+) : ([^()]*)\)", m.group(2))
            out[m.group(1)] = (params, m.group(3).strip())
        return out

    # -- types ---------------------------------------------------------------------------------------------------
    def conv(self, ast, fn):
        k = ast[0]
        if k == "tref":
            return ("refmut" if len(ast) > 2 else "ref", self.conv(ast[1], fn))
        if k == "tslice":
            if self.conv(ast[1], fn) != ("u", 8):
                raise ShapeError(f"{fn.label()}: only byte slices are supported")
            return ("slice",)
        if k == "ttuple":
            if not ast[1]:
                return ("unit",)
            raise ShapeError(f"{fn.label()}: tuple types are outside the subset")
        if k != "ty":
            raise ShapeError(f"{fn.label()}: type {ast!r} is outside the subset")
        name, args = ast[1], ast[2]
        m = re.fullmatch(r"([ui])(8|16|32|64)", name)
        if m:
            return (m.group(1), int(m.group(2)))
        if name in ("usize", "bool", "str"):
            return (name,)
        if name == "Self":
            return ("adt", fn.impl.ty)
        if name == "Self::Error":
            for im in self.impls:
                if im.ty == fn.impl.ty and "Error" in im.assoc:
                    return self.conv(parse_type(im.assoc["Error"], fn.label(), self.items), fn)
            raise ShapeError(f"{fn.label()}: no associated type Error for {fn.impl.ty}")
        if "::" in name:
            head, last = name.split("::")[0], name.split("::")[-1]
            if last == "Error" and (head in fn.bounds or len(head) == 1):
                return ("adt", "DeviceError")
            name = last
        if name in fn.bounds:
            b = fn.bounds[name]
            return BOUND_REP.get(b, ("tvar", name))
        if name == "Result":
            return ("result", self.conv(args[0], fn), self.conv(args[1], fn) if len(args) > 1 else ("adt", "Error"))
        if name == "Option":
            return ("option", self.conv(args[0], fn))
        if name in self.items.structs or name in self.items.enums or name in EXT_ENUMS:
            return ("adt", name)
        if len(name) == 1 and name.isupper():
            return ("adt", "DeviceError") if name == "E" else ("tvar", name)
        raise ShapeError(f"{fn.label()}: unknown type {name}")

    def is_wrapper(self, name):
        s = self.items.structs.get(name)
        return bool(s and s[0] == "named" and any(self._is_mgr_field(ft) for _, ft in s[1]))

    def _is_mgr_field(self, toks):
        return any(t.k == "id" and t.s == MANAGER for t in toks)

    def wrapper_field(self, name):
        s = self.items.structs[name]
        rest = [(fname, ft) for fname, ft in s[1] if not self._is_mgr_field(ft)]
        if len(rest) != 1:
            raise ShapeError(f"struct {name}: a wrapper is one handle and the manager reference")
        return rest[0]

    def rep(self, t, where):
        """Lean type of the representation"""
        k = t[0]
        if k in ("u", "usize"):
            return "Nat"
        if k == "i":
            return "Int"
        if k == "bool":
            return "Bool"
        if k == "unit":
            return "Unit"
        if k == "slice":
            return "List UInt8"
        if k == "name":
            return "List Nat"
        if k == "tvar":
            return t[1]
        if k in ("ref", "refmut"):
            return self.rep(t[1], where)
        if k == "option":
            return f"Option {atom(self.rep(t[1], where))}"
        if k == "adt":
            n = t[1]
            if n in MODEL_TYPES:
                return MODEL_TYPES[n]
            if n in EXT_ENUMS:
                return n
            if n == MANAGER:
                return None
            if self.is_wrapper(n):
                fname, ft = self.wrapper_field(n)
                return self.rep(self.conv(parse_type(ft, where, self.items), self._dummy_fn(n)), where)
            s = self.items.structs.get(n)
            if s and s[0] == "tuple" and len(s[1]) == 1:
                return self.rep(self.conv(parse_type(s[1][0], where, self.items), self._dummy_fn(n)), where)
            if n == "LfnBuffer":
                return "LfnBuffer"
        raise ShapeError(f"{where}: no representation for the type {show_ty(t)}")

    def _dummy_fn(self, ty):
        im = Impl("?", None, ty)
        return Fn(im, FnDecl("?", ty, "?", [], [], []), {})

    # -- method resolution ------------------------------------------------------------------------------------------
    @staticmethod
    def recv_type(selfty, kind):
        return {"self": selfty, "mutself": selfty, "&self": ("ref", selfty), "&mutself": ("refmut", selfty)}[kind]

    def candidates(self, recv_ty, name, file):
        """rustc's probing. -> (Fn or ('ext', trait, ty), adjustment, step type)"""
        steps, u = [], recv_ty
        while True:
            steps.append(u)
            if u[0] in ("ref", "refmut"):
                u = u[1]
            else:
                break
        for u in steps:
            for adj, r in (("value", u), ("&", ("ref", u)), ("&mut", ("refmut", u))):
                base = peel(r)
                if base[0] != "adt":
                    continue
                inherent, traity = [], []
                for im in self.impls:
                    if im.ty != base[1]:
                        continue
                    f = im.fns.get(name)
                    if f is not None:
                        sk, _ = parse_params(f.decl, self.items)
                        if sk is None or self.recv_type(("adt", im.ty), sk) != r:
                            continue
                        if im.trait is None:
                            inherent.append(f)
                        elif im.trait in self.scope[file]:
                            traity.append(f)
                    elif im.trait in EXT_TRAITS and im.trait in self.scope[file] and name in EXT_TRAITS[im.trait]:
                        sk = EXT_TRAITS[im.trait][name]
                        if sk is not None and self.recv_type(("adt", im.ty), sk) == r:
                            traity.append(("ext", im.trait, im.ty))
                for group in (inherent, traity):
                    if len(group) > 1:
                        raise ShapeError(f"method `{name}` on {show_ty(recv_ty)}: multiple applicable items in scope")
                    if group:
                        return group[0], adj, u
        return None

    def probe(self, recv_ty, name, file, where):
        c = self.candidates(recv_ty, name, file)
        if c is None:
            raise ShapeError(f"{where}: no method `{name}` found for {show_ty(recv_ty)}")
        if isinstance(c[0], tuple):
            raise ShapeError(f"{where}: `{name}` resolves to the provided method <impl {c[0][1]} for {c[0][2]}>::{name} "
                             f"of an external trait, which is outside the subset")
        return c

    def assoc_fn(self, ty, name, file, where):
        """`Type::name`: the inherent associated function first, then a trait's."""
        inherent = [im.fns[name] for im in self.impls if im.ty == ty and im.trait is None and name in im.fns]
        if len(inherent) > 1:
            raise ShapeError(f"{where}: duplicate definitions of {ty}::{name}")
        if inherent:
            return inherent[0]
        traity = [im.fns[name] for im in self.impls
                  if im.ty == ty and im.trait and im.trait in self.scope[file] and name in im.fns]
        if len(traity) > 1:
            raise ShapeError(f"{where}: `{ty}::{name}`: multiple applicable items in scope")
        if traity:
            return traity[0]
        raise ShapeError(f"{where}: no function `{name}` found for {ty}")

    # -- functions -----------------------------------------------------------------------------------------------
    def fresh(self, base):
        self.counter += 1
        return f"{base}_{self.counter}"

    def lean_name(self, fn):
        return f"{fn.impl.ty}_{fn.impl.trait}_{fn.name}" if fn.impl.trait else f"{fn.impl.ty}_{fn.name}"

    def find(self, ty, trait, name):
        for im in self.impls:
            if im.ty == ty and im.trait == trait and name in im.fns:
                return im.fns[name]
        raise ShapeError(f"{ty}{'/' + trait if trait else ''}::{name}: not found in the source")

    def translate(self, fn):
        key = fn.key()
        if key in self.done:
            return self.done[key]
        if fn in self.stack:
            cur = self.stack[-1]
            if cur is fn:
                raise ShapeError(f"unbounded recursion: {fn.label()} calls itself")
            raise ShapeError(f"unbounded recursion: {cur.label()} calls {fn.label()}, which is being translated "
                             f"(a cycle of calls)")
        self.stack.append(fn)
        saved = self.counter
        self.counter = 0
        try:
            info = self.translate_fn(fn)
        finally:
            self.stack.pop()
            self.counter = saved
        self.done[key] = info
        self.order.append(key)
        return info

    def translate_fn(self, fn):
        where = fn.label()
        info = FnInfo()
        self.cur = info
        info.name = self.lean_name(fn)
        info.doc = f"`{where}` ({fn.impl.file})"
        self_kind, params = parse_params(fn.decl, self.items)
        env = Env()
        selfty = ("adt", fn.impl.ty)
        if self_kind is not None:
            st = self.recv_type(selfty, self_kind)
            if fn.impl.ty == MANAGER:
                env = env.set("self", "", st, "mgr")
            else:
                info.params.append(("self", self.rep(selfty, where)))
                env = env.set("self", "self", st)
                if self_kind in ("self", "mutself") and fn.impl.ty in self.droppable:
                    env = env.own("self")
        for pname, past in params:
            t = self.conv(past, fn)
            if peel(t) == ("adt", MANAGER):
                env = env.set(pname, "", t, "mgr")
                continue
            if t[0] == "tvar" and t[1] not in info.tvars:
                info.tvars.append(t[1])
            if peel(t) == ("adt", "LfnBuffer") and "LfnBuffer" not in info.tvars:
                info.tvars.append("LfnBuffer")
            info.params.append((pname, self.rep(t, where)))
            env = env.set(pname, pname, t)
            if t == ("refmut", ("slice",)) or (t[0] == "refmut" and peel(t) == ("adt", "LfnBuffer")):
                info.outs.append(pname)
            if t[0] == "adt" and t[1] in self.droppable:
                env = env.own(pname)
        info.ret_ty = self.conv(parse_type(fn.decl.ret, where, self.items), fn) if fn.decl.ret else ("unit",)
        self.fn, self.self_kind, self.where = fn, self_kind, where
        body = parse_fn_body(fn.decl, self.items)
        ir = self.tail(body, env)
        info.pure = not self.monadic(ir)
        vt = info.ret_ty[1] if info.ret_ty[0] == "result" else info.ret_ty
        comps = [self.rep(vt, where)] + [dict(info.params)[o] for o in info.outs]
        if info.self_out:
            comps.append(dict(info.params)["self"])
        if len(comps) > 1 and comps[0] == "Unit":
            comps = comps[1:]
        info.ret = " × ".join(atom(c) for c in comps)
        if info.ret_ty[0] == "result" and info.pure:
            raise ShapeError(f"{where}: a function returning a Result that makes no call is outside the subset")
        info.body = simplify_ir(ir)
        return info

    def monadic(self, ir):
        k = ir[0]
        if k in ("comp", "bind"):
            return True
        if k == "ret":
            return False
        if k == "ite":
            return self.monadic(ir[2]) or self.monadic(ir[3])
        if k == "match":
            return any(self.monadic(a) for _, a in ir[2])
        if k == "let":
            return self.monadic(ir[3])
        raise AssertionError(k)

    # -- statements ----------------------------------------------------------------------------------------------
    def err(self, msg):
        raise ShapeError(f"{self.where}: {msg}")

    def tail(self, e, env):
        """the expression whose value is the function's"""
        k = e[0]
        if k == "block":
            return self.stmts(e[1], e[2], env, self.tail_or_unit)
        if k == "if" and e[3] is not None:
            return self.ev(e[1], env, lambda c, env2: ("ite", self.cond(c), self.tail(e[2], env2), self.tail(e[3], env2)))
        if k == "match":
            return self.ev(e[1], env, lambda s, env2: self.match_ir(s, e[2], env2, self.tail))
        if k == "assign":
            return self.assign(e, env, lambda env2: self.finish(Val("val", "()", ("unit",)), env2))
        if k == "return":
            return self.tail(e[1], env) if e[1] is not None else self.finish(Val("val", "()", ("unit",)), env)
        return self.ev(e, env, self.finish, expect=self.cur.ret_ty)

    def tail_or_unit(self, t, env):
        if t is None:
            return self.finish(Val("val", "()", ("unit",)), env)
        return self.tail(t, env)

    def stmts(self, stmts, tail, env, k):
        """k(tail expression or None, env)"""
        if not stmts:
            return k(tail, env)
        s, rest = stmts[0], stmts[1:]
        go = lambda env2: self.stmts(rest, tail, env2, k)
        if s[0] == "let":
            pat, tyast, init = s[1], s[2], s[3]
            if init is None:
                self.err("`let` without a value is outside the subset")
            want = self.conv(tyast, self.fn) if tyast is not None else None

            def bound(v, env2):
                if pat[0] == "pwild":
                    return self.discard(v, env2, go)
                if pat[0] != "pbind":
                    self.err("this `let` pattern is outside the subset")
                name = pat[1]
                if v.kind == "comp" and v.ty[0] == "result":
                    if v.outs:
                        self.err("a Result kept in a variable from a call that fills a buffer is outside the subset")
                    x = self.fresh(name)
                    return ("bind", ("comp", f"M.attempt {atom(v.text)}"), x, go(env2.set(name, x, v.ty, "res")))
                if v.kind in ("ok", "opt"):
                    self.err("an `Option` / `Result` value kept in a variable is outside the subset")
                return self.force(v, env2, lambda w, env3: self.bind_name(name, w, env3, go))
            return self.ev(init, env, bound, expect=want)
        if s[0] == "expr":
            e = s[1]
            if e[0] == "assign":
                return self.assign(e, env, go)
            if e[0] in ("match", "if", "block"):
                return self.branch_stmt(e, env, go)
            return self.ev(e, env, lambda v, env2: self.discard(v, env2, go, stmt=True))
        self.err(f"statement `{s[0]}` is outside the subset")

    def bind_name(self, name, w, env, go):
        lean = w.text if re.fullmatch(r"[\w']+", w.text) else None
        env2 = env
        if w.ty[0] == "adt" and w.ty[1] in self.droppable:
            env2 = env2.own(name)
        if lean is not None:
            return go(env2.set(name, lean, w.ty))
        x = self.fresh(name)
        return ("let", x, w.text, go(env2.set(name, x, w.ty)))

    def discard(self, v, env, go, stmt=False):
        """`_ = e;` / `let _ = e;` / `e;`"""
        if v.kind == "comp" and v.ty[0] == "result":
            if v.outs:
                self.err("discarding the result of a call that fills a buffer is outside the subset")
            return ("bind", ("comp", f"discardErr {atom(v.text)}"), "_", go(env))
        if v.kind == "res":
            return go(env)
        return self.force(v, env, lambda w, env2: go(env2))

    def assign(self, e, env, go):
        op, lhs, rhs = e[1], e[2], e[3]
        if op != "=":
            self.err(f"`{op}` is outside the subset")
        if lhs == ("path", ["_"]):
            return self.ev(rhs, env, lambda v, env2: self.discard(v, env2, go))
        if lhs[0] == "field" and lhs[1] == ("path", ["self"]):
            st = env.vars["self"][1]
            if st[0] != "refmut" and self.self_kind != "mutself":
                self.err("assignment to a field of `self`, which is not mutable here")
            base = peel(st)
            if not self.is_wrapper(base[1]) or self.wrapper_field(base[1])[0] != lhs[2]:
                self.err(f"assignment to `self.{lhs[2]}` is outside the subset")
            fty = self.field_type(base[1])

            def setf(v, env2):
                def done(w, env3):
                    if w.ty != fty:
                        self.err(f"`self.{lhs[2]} = ..`: {show_ty(w.ty)} where {show_ty(fty)} is expected")
                    if st[0] == "refmut":
                        self.cur.self_out = True
                    x = self.fresh("self")
                    return ("let", x, w.text, go(env3.set("self", x, st)))
                return self.force(v, env2, done)
            return self.ev(rhs, env, setf, expect=fty)
        self.err("this assignment is outside the subset")

    def branch_stmt(self, e, env, go):
        """a `match` / `if` / block in statement position: its arms are computations of `()`; they may fail (`?`) but
        not assign, move, or return"""
        if e[0] == "block":
            return self.stmts(e[1], e[2], env,
                              lambda t, env2: go(env2) if t is None else
                              self.ev(t, env2, lambda v, env3: self.discard(v, env3, go, stmt=True)))
        saved = (self.cur.self_out,)

        def arm(b, env2):
            live0 = env2.live

            def fin(v, env3):
                if env3.live != live0 or any(env3.vars.get(n) != env2.vars.get(n) for n in env2.vars):
                    self.err("an arm of a `match` / `if` statement that assigns or moves is outside the subset")
                return self.force(v, env3, lambda w, env4: ("ret", "()"))
            if b[0] == "block":
                return self.stmts(b[1], b[2], env2, lambda t, env3: ("ret", "()") if t is None else self.ev(t, env3, fin))
            return self.ev(b, env2, fin)
        self.in_arm = getattr(self, "in_arm", 0) + 1
        try:
            if e[0] == "match":
                ir = self.ev(e[1], env, lambda s, env2: self.match_ir(s, e[2], env2, arm))
            else:
                if e[3] is None:
                    ir = self.ev(e[1], env, lambda c, env2: ("ite", self.cond(c), arm(e[2], env2), ("ret", "()")))
                else:
                    ir = self.ev(e[1], env, lambda c, env2: ("ite", self.cond(c), arm(e[2], env2), arm(e[3], env2)))
        finally:
            self.in_arm -= 1
        if not self.monadic(ir):
            return go(env)
        return ("bind", ir, "_", go(env))

    def cond(self, v):
        if v.kind != "val" or v.ty != ("bool",):
            self.err("condition is not a plain boolean")
        return v.text

    def match_ir(self, s, arms, env, body):
        if s.kind != "val":
            self.err("`match` on a value that is not plain is outside the subset")
        base = peel(s.ty)
        if base[0] != "adt":
            self.err(f"`match` on {show_ty(s.ty)} is outside the subset")
        variants = self.variants(base[1])
        out = []
        for pat, guard, b in arms:
            if guard is not None:
                self.err("match guards are outside the subset")
            alts = pat[1] if pat[0] == "por" else [pat]
            pats, env2 = [], env
            for a in alts:
                p, binds = self.pattern(a, base[1], variants)
                if binds and len(alts) > 1:
                    self.err("bindings in an or-pattern are outside the subset")
                for n, t in binds:
                    env2 = env2.set(n, n, t)
                pats.append(p)
            out.append((" | ".join(pats), body(b, env2)))
        return ("match", s.text, out)

    def variants(self, name):
        if name in EXT_ENUMS:
            return {v: tys for v, tys in EXT_ENUMS[name]}
        en = self.items.enums.get(name)
        if en is None:
            self.err(f"`match` on {name}, which is not an enum")
        out = {}
        for v in en:
            vname, payload = v[0], v[1]
            out[vname] = payload
        return out

    def pattern(self, p, ename, variants):
        if p[0] == "pwild":
            return "_", []
        if p[0] == "ppath" or p[0] == "ptuple":
            segs = p[1]
            if len(segs) != 2 or segs[0] not in (ename, "Self"):
                self.err(f"pattern {'::'.join(segs)} does not name a variant of {ename}")
            v = segs[1]
            if v not in variants:
                self.err(f"{ename} has no variant {v}")
            payload = variants[v]
            subs = p[2] if p[0] == "ptuple" else []
            if len(subs) != len(payload):
                self.err(f"pattern {ename}::{v}: {len(subs)} fields where the variant has {len(payload)}")
            lean_enum = MODEL_TYPES.get(ename, ename)
            if (ename, v) in ERASED_PAYLOAD:
                if any(q[0] != "pwild" for q in subs):
                    self.err(f"the payload of {ename}::{v} is not represented")
                return f".{v}", []
            parts, binds = [], []
            for q, pt in zip(subs, payload):
                if q[0] == "pwild":
                    parts.append("_")
                elif q[0] == "pbind":
                    if not isinstance(pt, tuple):
                        self.err(f"binding the payload of {ename}::{v} is outside the subset")
                    parts.append(q[1])
                    binds.append((q[1], pt))
                else:
                    self.err("nested patterns are outside the subset")
            return f".{v}" + "".join(" " + x for x in parts), binds
        self.err(f"pattern {p[0]} is outside the subset")

    # -- the end of the function ---------------------------------------------------------------------------------
    def finish(self, v, env):
        info = self.cur
        rt = info.ret_ty
        if rt[0] == "result":
            if v.ty[0] != "result":
                self.err(f"the function returns {show_ty(rt)}, its last expression is {show_ty(v.ty)}")
            if v.kind == "ok":
                return self.finish_val(v.text, v.ty[1], env, [])
            if v.kind == "opt":
                if v.err is None:
                    self.err("a conversion error is returned as it is")
                v = Val("comp", f"ofOption {atom(v.err)} {atom(v.text)}", v.ty)
            if v.kind == "res":
                if v.ty[2] != rt[2]:
                    self.err(f"error type {show_ty(v.ty[2])} returned where {show_ty(rt[2])} is expected")
                if env.live:
                    held = v.text
                    return self.drops(env, lambda env2: ("comp", f"M.lift {held}") if not self.extra(env2) else
                                      ("bind", ("comp", f"M.lift {held}"), "r", ("ret", self.pack("r", v.ty[1], env2))))
                v = Val("comp", f"M.lift {v.text}", v.ty)
            if v.kind != "comp":
                self.err("cannot return this Result")
            if v.ty[2] != rt[2]:
                self.err(f"error type {show_ty(v.ty[2])} returned where {show_ty(rt[2])} is expected")
            if env.live:
                # the value is computed, then the destructors run, then it is returned
                if v.outs:
                    self.err("destructors after a call that fills a buffer are outside the subset")
                x = self.fresh("result")
                return ("bind", ("comp", f"M.attempt {atom(v.text)}"), x,
                        self.drops(env, lambda env2: ("comp", f"M.lift {x}") if not self.extra(env2) else
                                   ("bind", ("comp", f"M.lift {x}"), "r", ("ret", self.pack("r", v.ty[1], env2)))))
            x = self.fresh("r")
            env2, pat = self.take_outs(v, env, x)
            return self.simplify(("bind", ("comp", v.text), pat, ("ret", self.pack(x, v.ty[1], env2))))
        return self.force(v, env, lambda w, env2: self.finish_val(w.text, w.ty, env2, []))

    def finish_val(self, text, ty, env, _):
        rt = self.cur.ret_ty
        want = rt[1] if rt[0] == "result" else rt
        if not self.fits(ty, want):
            self.err(f"the function returns {show_ty(want)}, its last expression is {show_ty(ty)}")
        return self.drops(env, lambda env2: ("ret", self.pack(text, want, env2)))

    def fits(self, have, want):
        return have == want or (have[0] == "lit" and want[0] in ("u", "i", "usize"))

    def extra(self, env):
        return bool(self.cur.outs) or self.cur.self_out

    def pack(self, text, ty, env):
        comps = [text] + [env.vars[o][0] for o in self.cur.outs]
        if self.cur.self_out:
            comps.append(env.vars["self"][0])
        if len(comps) > 1 and ty == ("unit",):
            comps = comps[1:]
        return comps[0] if len(comps) == 1 else "(" + ", ".join(comps) + ")"

    def drops(self, env, k):
        if not env.live:
            return k(env)
        name = env.live[-1]
        lean, ty, _ = env.vars[name]
        im = [i for i in self.impls if i.ty == ty[1] and i.trait == "Drop"]
        d = self.call_info(im[0].fns["drop"])
        args = (["fuel"] if d.fuel else []) + [e for e, _ in d.ext] + [lean]
        if d.fuel:
            self.cur.fuel = True
        self.add_ext(d)
        if d.self_out or d.outs:
            self.err("a destructor that changes its value is outside the subset")
        return ("bind", ("comp", " ".join([d.name] + args)), "_", self.drops(env.move(name), k))

    def simplify(self, ir):
        return simplify_ir(ir)

    def take_outs(self, v, env, x):
        """the pattern binding the result of a call that returns (value, buffers..)"""
        if not v.outs:
            return env, x
        names = []
        env2 = env
        for var in v.outs:
            lean = self.fresh(var)
            names.append(lean)
            env2 = env2.set(var, lean, env.vars[var][1])
        vt = v.ty[1] if v.ty[0] == "result" else v.ty
        parts = ([] if vt == ("unit",) else [x]) + names
        return env2, (parts[0] if len(parts) == 1 else "(" + ", ".join(parts) + ")")

    def force(self, v, env, k):
        """make the value plain: run a computation that cannot fail, refuse an unconsumed Result"""
        if v.kind == "val":
            return k(v, env)
        if v.kind == "mgr":
            return k(v, env)
        if v.kind == "comp" and v.ty[0] != "result":
            x = self.fresh("t")
            env2, pat = self.take_outs(v, env, x)
            if v.ty == ("unit",):
                return ("bind", ("comp", v.text), pat if v.outs else "_", k(Val("val", "()", v.ty), env2))
            return ("bind", ("comp", v.text), pat, k(Val("val", x, v.ty), env2))
        self.err(f"a value of type {show_ty(v.ty)} is used without `?` / `expect` / `unwrap`")

    # -- expressions ---------------------------------------------------------------------------------------------
    def ev(self, e, env, k, expect=None):
        kind = e[0]
        if kind == "lit":
            v, suf = e[1], e[2] if len(e) > 2 else None
            if isinstance(v, bool):
                return k(Val("val", "true" if v else "false", ("bool",)), env)
            ty = None
            if suf:
                ty = self.conv(("ty", suf, []), self.fn)
            elif expect is not None:
                ex = expect[1] if expect[0] == "result" else expect
                if ex[0] in ("u", "i", "usize"):
                    ty = ex
            if ty is None:
                self.err(f"cannot type the literal {v}")
            lo, hi = INT_RANGE[ty]
            if not (lo <= v <= hi):
                self.err(f"literal {v} out of range for {show_ty(ty)}")
            return k(Val("val", str(v), ty), env)
        if kind == "path":
            return self.ev_path(e[1], env, k)
        if kind == "field":
            return self.ev(e[1], env, lambda b, env2: self.ev_field(b, e[2], env2, k))
        if kind == "ref":
            def refd(v, env2):
                if v.kind in ("val", "mgr"):
                    return k(Val(v.kind, v.text, ("refmut" if len(e) > 2 else "ref", v.ty), var=v.var), env2)
                self.err("`&` of a call is outside the subset")
            return self.ev(e[1], env, refd)
        if kind == "tuple" and not e[1]:
            return k(Val("val", "()", ("unit",)), env)
        if kind == "paren":
            return self.ev(e[1], env, k, expect)
        if kind == "try":
            return self.ev(e[1], env, lambda v, env2: self.ev_try(v, env2, k),
                           expect=("result", expect, None) if expect is not None else None)
        if kind == "mcall":
            rexp = None
            if expect is not None and expect[0] == "result":
                rexp = expect if e[2] == "map_err" else ("option", expect[1]) if e[2] == "ok_or" else None
            return self.ev(e[1], env, lambda r, env2: self.ev_mcall(r, e[2], e[3], env2, k, expect), expect=rexp)
        if kind == "call":
            return self.ev_call(e[1], e[2], env, k, expect)
        if kind == "cast":
            return self.ev(e[1], env, lambda v, env2: self.force(v, env2, lambda w, env3: self.ev_cast(w, e[2], env3, k)))
        if kind == "struct":
            return self.ev_struct(e, env, k)
        if kind == "block":
            if not e[1] and e[2] is not None:
                return self.ev(e[2], env, k, expect)
            self.err("a block with statements used as a value is outside the subset")
        if kind in ("if", "match"):
            self.err(f"`{kind}` used as a value in the middle of an expression is outside the subset")
        if kind == "return":
            self.err("`return` in the middle of an expression is outside the subset")
        if kind == "macro":
            self.err(f"macro `{e[1]}!` is outside the subset")
        self.err(f"expression `{kind}` is outside the subset")

    def ev_path(self, segs, env, k):
        if len(segs) == 1:
            n = segs[0]
            if n not in env.vars:
                self.err(f"unknown name {n}")
            lean, ty, kd = env.vars[n]
            if ty[0] == "adt" and ty[1] in self.droppable and n not in env.live:
                self.err(f"`{n}` is used after it has been moved")
            return k(Val(kd, lean, ty, var=n), env)
        if len(segs) == 2:
            en = segs[0]
            if en == "Self":
                en = self.fn.impl.ty
            if en in EXT_ENUMS or en in self.items.enums:
                vs = self.variants(en)
                if segs[1] not in vs:
                    self.err(f"{en} has no variant {segs[1]}")
                if vs[segs[1]]:
                    self.err(f"{en}::{segs[1]} carries a value")
                return k(Val("val", f"{MODEL_TYPES.get(en, en)}.{segs[1]}", ("adt", en)), env)
        self.err(f"path {'::'.join(segs)} is outside the subset")

    def field_type(self, wrapper):
        fname, ft = self.wrapper_field(wrapper)
        return self.conv(parse_type(ft, self.where, self.items), self._dummy_fn(wrapper))

    def ev_field(self, b, name, env, k):
        base = peel(b.ty)
        if b.kind != "val" or base[0] != "adt" or not self.is_wrapper(base[1]):
            self.err(f"field `{name}` of {show_ty(b.ty)} is outside the subset")
        s = self.items.structs[base[1]]
        for fname, ft in s[1]:
            if fname == name:
                if self._is_mgr_field(ft):
                    return k(Val("mgr", "", ("ref", ("adt", MANAGER))), env)
                return k(Val("val", b.text, self.field_type(base[1])), env)
        self.err(f"{base[1]} has no field {name}")

    def ev_struct(self, e, env, k):
        name, fields = e[1], e[2]
        if name == "Self":
            name = self.fn.impl.ty
        if not self.is_wrapper(name):
            self.err(f"struct literal {name} is outside the subset")
        hname, _ = self.wrapper_field(name)
        decl = [f for f, _ in self.items.structs[name][1]]
        got = {}
        for f in fields:
            fname, fe = f[0], f[1]
            got[fname] = fe if fe is not None else ("path", [fname])
        if sorted(got) != sorted(decl):
            self.err(f"struct literal {name}: fields {sorted(got)} where {sorted(decl)} are declared")
        order = [f[0] for f in fields]

        def go(i, env2, acc):
            if i == len(order):
                return k(Val("val", acc[hname].text, ("adt", name)), env2)
            fname = order[i]
            return self.ev(got[fname], env2, lambda v, env3: self.force(
                v, env3, lambda w, env4: go(i + 1, self.moved(w, env4), dict(acc, **{fname: w}))))
        return go(0, env, {})

    def moved(self, w, env):
        if w.var is not None and w.ty[0] == "adt" and w.ty[1] in self.droppable:
            return env.move(w.var)
        return env

    def ev_try(self, v, env, k):
        if env.live:
            self.err("`?` while a value with a destructor is owned is outside the subset")
        rt = self.cur.ret_ty
        if rt[0] != "result":
            self.err("`?` in a function that does not return a Result")
        if v.ty[0] != "result":
            self.err(f"`?` on {show_ty(v.ty)}")
        if v.kind == "opt":
            if v.err is None:
                self.err("`?` on a conversion whose error has not been mapped")
            v = Val("comp", f"ofOption {atom(v.err)} {atom(v.text)}", v.ty)
        if v.ty[2] != rt[2]:
            self.err(f"`?` would convert {show_ty(v.ty[2])} into {show_ty(rt[2])}: outside the subset")
        if v.kind == "ok":
            return k(Val("val", v.text, v.ty[1]), env)
        if v.kind == "res":
            v = Val("comp", f"M.lift {v.text}", v.ty)
        if v.kind != "comp":
            self.err("`?` on this value is outside the subset")
        x = self.fresh("t")
        env2, pat = self.take_outs(v, env, x)
        if v.ty[1] == ("unit",):
            return ("bind", ("comp", v.text), pat if v.outs else "_", k(Val("val", "()", ("unit",)), env2))
        return ("bind", ("comp", v.text), pat, k(Val("val", x, v.ty[1]), env2))

    def ev_cast(self, w, tyast, env, k):
        to = self.conv(tyast, self.fn)
        if w.ty not in INT_RANGE or to not in INT_RANGE:
            self.err(f"cast {show_ty(w.ty)} as {show_ty(to)} is outside the subset")
        lo, hi = INT_RANGE[w.ty]
        tlo, thi = INT_RANGE[to]
        src_int, dst_int = w.ty[0] == "i", to[0] == "i"
        if tlo <= lo and hi <= thi:
            text = w.text if src_int == dst_int else f"Int.ofNat {atom(w.text)}"
        else:
            m = thi - tlo + 1
            x = atom(w.text)
            if not dst_int:
                text = f"Int.toNat ({x} % {m})" if src_int else f"{x} % {m}"
            else:
                xi = x if src_int else f"(Int.ofNat {x})"
                text = f"(({xi} + {-tlo}) % {m}) - {-tlo}"
        return k(Val("val", text, to), env)

    # -- calls ---------------------------------------------------------------------------------------------------
    def closure_const(self, a):
        """`|_| Error::X`"""
        if a[0] != "closure" or len(a[1]) != 1 or a[1][0] != "_" or a[2][0] != "path":
            self.err("only closures of the form `|_| Error::Variant` are supported here")
        return a[2]

    def ev_mcall(self, r, name, args, env, k, expect):
        # values that are not plain: Result / Option combinators
        if r.kind == "comp" and r.ty[0] == "result":
            if name in ("expect", "unwrap"):
                if name == "expect":
                    if len(args) != 1 or args[0][0] != "str":
                        self.err("`expect` needs a string literal")
                    msg = args[0][1]
                else:
                    msg = UNWRAP_MSG
                text = f"expectOk {lean_str(msg)} {atom(r.text)}"
                return k(Val("comp", text, r.ty[1], outs=r.outs), env)
            self.err(f"`.{name}()` on a Result is outside the subset")
        if r.kind == "opt":
            if name == "ok_or" and r.ty[0] == "option" and len(args) == 1:
                return self.ev(args[0], env, lambda ev_, env2: k(
                    Val("opt", r.text, ("result", r.ty[1], ev_.ty), err=ev_.text), env2))
            if name == "map_err" and r.ty[0] == "result" and len(args) == 1:
                c = self.closure_const(args[0])
                return self.ev(c, env, lambda ev_, env2: k(
                    Val("opt", r.text, ("result", r.ty[1], ev_.ty), err=ev_.text), env2))
            self.err(f"`.{name}()` on {show_ty(r.ty)} is outside the subset")
        if r.kind in ("ok", "res"):
            self.err(f"`.{name}()` on a Result value is outside the subset")
        if r.kind == "comp":
            return self.force(r, env, lambda w, env2: self.ev_mcall(w, name, args, env2, k, expect))
        base = peel(r.ty)
        if base in INT_RANGE:
            return self.int_method(r, base, name, args, env, k, expect)
        if base == ("slice",):
            for tr, ms in EXT_TRAITS.items():
                if name in ms and tr in self.scope[self.fn.impl.file] and tr not in ("Drop", "Debug", "From"):
                    self.err(f"`{name}` on a slice may resolve to {tr}::{name}: outside the subset")
            if name == "is_empty" and not args:
                return k(Val("val", f"{atom(r.text)}.isEmpty", ("bool",)), env)
            if name == "len" and not args:
                return k(Val("val", f"{atom(r.text)}.length", ("usize",)), env)
            self.err(f"`.{name}()` on a slice is outside the subset")
        if base[0] != "adt":
            self.err(f"method `{name}` on {show_ty(r.ty)} is outside the subset")
        target, adj, step = self.probe(r.ty, name, self.fn.impl.file, self.where)
        return self.call_fn(target, r, args, env, k, by_value=(adj == "value" and step[0] == "adt"))

    def int_method(self, r, ty, name, args, env, k, expect):
        x = atom(r.text)
        if name == "try_into" and not args:
            to = None
            if expect is not None:
                to = expect[1] if expect[0] == "result" else expect
            if to not in INT_RANGE:
                self.err("cannot tell the target type of `try_into()`")
            lo, hi = INT_RANGE[ty]
            tlo, thi = INT_RANGE[to]
            conds = []
            if lo < tlo:
                conds.append(f"{tlo} ≤ {x}")
            if hi > thi:
                conds.append(f"{x} ≤ {thi}")
            val = x
            if ty[0] == "i" and to[0] != "i":
                val = f"Int.toNat {x}"
            elif ty[0] != "i" and to[0] == "i":
                val = f"Int.ofNat {x}"
            text = f"some {atom(val)}" if not conds else f"if {' ∧ '.join(conds)} then some {atom(val)} else none"
            return k(Val("opt", text, ("result", to, ("adt", "TryFromIntError"))), env)
        if name == "checked_neg" and not args and ty[0] == "i":
            lo, hi = INT_RANGE[ty]
            return k(Val("opt", f"if {x} = {lo} then none else some (-{x})", ("option", ty)), env)
        if name in ("checked_add", "checked_sub") and len(args) == 1:
            lo, hi = INT_RANGE[ty]
            op = "+" if name == "checked_add" else "-"

            def got(b, env2):
                if b.ty != ty:
                    self.err(f"`{name}`: {show_ty(b.ty)} where {show_ty(ty)} is expected")
                s = f"{x} {op} {atom(b.text)}"
                if ty[0] == "i":
                    return k(Val("opt", f"if {lo} ≤ {s} ∧ {s} ≤ {hi} then some ({s}) else none", ("option", ty)), env2)
                if op == "+":
                    return k(Val("opt", f"if {s} ≤ {hi} then some ({s}) else none", ("option", ty)), env2)
                return k(Val("opt", f"if {atom(b.text)} ≤ {x} then some ({s}) else none", ("option", ty)), env2)
            return self.ev(args[0], env, lambda b, env2: self.force(b, env2, got), expect=ty)
        if name == "into" and not args:
            to = None
            if expect is not None:
                to = expect[1] if expect[0] == "result" else expect
            if to not in INT_RANGE:
                self.err("cannot tell the target type of `into()`")
            return k(self.widen(r, ty, to), env)
        self.err(f"`.{name}()` on {show_ty(ty)} is outside the subset")

    def widen(self, r, ty, to):
        lo, hi = INT_RANGE[ty]
        tlo, thi = INT_RANGE[to]
        if not (tlo <= lo and hi <= thi) or (ty == ("usize",)) != (to == ("usize",)) and ty != to:
            self.err(f"there is no `From<{show_ty(ty)}>` for {show_ty(to)}")
        text = r.text if (ty[0] == "i") == (to[0] == "i") else f"Int.ofNat {atom(r.text)}"
        return Val("val", text, to)

    def ev_call(self, f, args, env, k, expect):
        if f[0] != "path":
            self.err("calling a value is outside the subset")
        segs = f[1]
        if segs == ["Ok"] and len(args) == 1:
            want = expect[1] if expect is not None and expect[0] == "result" else None
            et = expect[2] if expect is not None and expect[0] == "result" else ("adt", "Error")

            def okd(v, env2):
                return self.force(v, env2, lambda w, env3: k(
                    Val("ok", w.text, ("result", w.ty, et)), self.moved(w, env3)))
            return self.ev(args[0], env, okd, expect=want)
        if segs == ["Err"] and len(args) == 1:
            want = expect[1] if expect is not None and expect[0] == "result" else ("unit",)
            return self.ev(args[0], env, lambda v, env2: k(
                Val("comp", f"M.fail {atom(v.text)}", ("result", want, v.ty)), env2))
        if segs in (["core", "mem", "forget"], ["mem", "forget"]) and len(args) == 1:
            def forgot(v, env2):
                if v.var is None or v.kind != "val":
                    self.err("`mem::forget` of something that is not a variable")
                return k(Val("val", "()", ("unit",)), env2.move(v.var))
            return self.ev(args[0], env, forgot)
        if len(segs) == 2 and self.conv_name(segs[0]) in INT_RANGE and segs[1] == "from" and len(args) == 1:
            to = self.conv_name(segs[0])
            return self.ev(args[0], env, lambda v, env2: self.force(
                v, env2, lambda w, env3: k(self.widen(w, w.ty, to), env3)))
        if len(segs) == 2:
            ty = self.fn.impl.ty if segs[0] == "Self" else segs[0]
            if any(im.ty == ty for im in self.impls):
                target = self.assoc_fn(ty, segs[1], self.fn.impl.file, self.where)
                sk, _ = parse_params(target.decl, self.items)
                if sk is not None:
                    if not args:
                        self.err(f"{ty}::{segs[1]} needs its receiver")
                    return self.ev(args[0], env, lambda r, env2: self.call_fn(
                        target, r, args[1:], env2, k, by_value=sk in ("self", "mutself"), path_call=True))
                return self.call_fn(target, None, args, env, k)
        self.err(f"call of {'::'.join(segs)} is outside the subset")

    def conv_name(self, n):
        m = re.fullmatch(r"([ui])(8|16|32|64)", n)
        return (m.group(1), int(m.group(2))) if m else ((n,) if n == "usize" else None)

    def call_info(self, target):
        """the callee's translation (recursion is detected here)"""
        cur, fn, sk, where = self.cur, self.fn, self.self_kind, self.where
        try:
            return self.translate(target)
        finally:
            self.cur, self.fn, self.self_kind, self.where = cur, fn, sk, where

    def add_ext(self, d):
        for e in d.ext:
            if e not in self.cur.ext:
                self.cur.ext.append(e)
        for t in d.tvars:
            if t not in self.cur.tvars:
                self.cur.tvars.append(t)

    def call_fn(self, target, recv, args, env, k, by_value=False, path_call=False):
        sk, params = parse_params(target.decl, self.items)
        if len(params) != len(args):
            self.err(f"{target.label()} takes {len(params)} arguments, {len(args)} given")
        selfty = ("adt", target.impl.ty)
        is_mgr = target.impl.ty == MANAGER and target.name not in self.MANAGER_OWN
        if recv is not None:
            want = self.recv_type(selfty, sk)
            if path_call and not self.coerces(recv.ty, want):
                self.err(f"{target.label()}: receiver of type {show_ty(recv.ty)} where {show_ty(want)} is expected")
            if by_value and recv.var is not None and recv.ty[0] == "adt" and recv.ty[1] in self.droppable:
                env = env.move(recv.var)
        ptys = [self.conv(p, target) for _, p in params]
        if is_mgr:
            d = None
            ret_ty = self.conv(parse_type(target.decl.ret, target.label(), self.items), target) if target.decl.ret \
                else ("unit",)
        else:
            d = self.call_info(target)
            ret_ty = d.ret_ty

        def go(i, env2, acc):
            if i == len(args):
                return self.emit_call(target, d, recv, acc, ptys, params, ret_ty, env2, k)
            return self.ev(args[i], env2, lambda v, env3: self.force(
                v, env3, lambda w, env4: go(i + 1, self.moved(w, env4) if ptys[i][0] == "adt" else env4, acc + [w])),
                expect=ptys[i])
        return go(0, env, [])

    def coerces(self, have, want):
        if have == want:
            return True
        if want[0] == "ref" and have[0] in ("ref", "refmut"):
            return self.coerces(have[1], want[1]) or have[1] == want[1]
        if want[0] == "refmut" and have[0] == "refmut":
            return have[1] == want[1]
        return False

    def emit_call(self, target, d, recv, vals, ptys, params, ret_ty, env, k):
        where = self.where
        texts, outs = [], []
        for (pname, _), pt, w in zip(params, ptys, vals):
            if peel(pt) == ("adt", MANAGER):
                if w.kind != "mgr":
                    self.err(f"{target.label()}: argument `{pname}` is not the manager")
                continue
            if w.kind != "val":
                self.err(f"{target.label()}: argument `{pname}` is not a plain value")
            if not (self.coerces(w.ty, pt) or w.ty == pt):
                self.err(f"{target.label()}: argument `{pname}` has type {show_ty(w.ty)} where {show_ty(pt)} is expected")
            texts.append(atom(w.text))
            if pt == ("refmut", ("slice",)) or (pt[0] == "refmut" and peel(pt) == ("adt", "LfnBuffer")):
                if w.var is None:
                    self.err(f"{target.label()}: the buffer argument `{pname}` is not a variable")
                outs.append(w.var)
        if d is None:
            # a method of the manager
            if recv is None or recv.kind != "mgr":
                self.err(f"{target.label()} is not called on the manager")
            lean_params = [self.rep(pt, where) for pt in ptys if peel(pt) != ("adt", MANAGER)]
            vt = ret_ty[1] if ret_ty[0] == "result" else ret_ty
            comps = [self.rep(vt, where)] + [self.rep(pt, where) for pt in ptys
                                              if pt == ("refmut", ("slice",)) or
                                              (pt[0] == "refmut" and peel(pt) == ("adt", "LfnBuffer"))]
            if len(comps) > 1 and comps[0] == "Unit":
                comps = comps[1:]
            lean_ret = "M " + atom(" × ".join(atom(c) for c in comps))
            for pt in ptys:
                if pt[0] == "tvar" and pt[1] not in self.cur.tvars:
                    self.cur.tvars.append(pt[1])
            have, ns = self.mgr_defs.get(target.name), "FunsMgr"
            if have is None and target.name in self.mgr2_defs:
                # Gen/FunsMgr2.lean has the method; it is used when its type is the one this call needs (a method with a
                # callback is there under another convention: the list of the calls, and stays a parameter here)
                hp2, hr2 = self.mgr2_defs[target.name]
                if [norm(t) for _, t in hp2] == [norm(t) for t in lean_params] and norm(hr2) == norm(lean_ret):
                    have, ns = (hp2, hr2), "FunsMgr2"
                    self.uses_mgr2 = True
            if have is None:
                pname = f"{MANAGER}_{target.name}"
                ety = " → ".join(atom(p) for p in lean_params + [lean_ret])
                if (pname, ety) not in self.cur.ext:
                    self.cur.ext.append((pname, ety))
                head = [pname]
            else:
                hp, hr = have
                head = [f"{ns}.{MANAGER}_{target.name}"]
                if hp and hp[0] == ("fuel", "Nat"):
                    head.append("fuel")
                    self.cur.fuel = True
                    hp = hp[1:]
                if [norm(t) for _, t in hp] != [norm(t) for t in lean_params] or norm(hr) != norm(lean_ret):
                    self.err(f"Gen/FunsMgr.lean has {MANAGER}_{target.name} : "
                             f"{' → '.join(t for _, t in hp)} → {hr}, the call needs "
                             f"{' → '.join(lean_params)} → {lean_ret}")
            text = " ".join(head + texts)
            return k(Val("comp", text, ret_ty, outs=outs), env)
        self.add_ext(d)
        head = [d.name] + (["fuel"] if d.fuel else []) + [e for e, _ in d.ext]
        if d.fuel:
            self.cur.fuel = True
        if recv is not None and target.impl.ty != MANAGER:
            if recv.kind != "val":
                self.err(f"{target.label()}: the receiver is not a plain value")
            head.append(atom(recv.text))
        text = " ".join(head + texts)
        if d.self_out:
            self.err(f"calling {target.label()}, which assigns to its `self`, is outside the subset")
        if d.pure:
            return k(Val("val", text, ret_ty), env)
        return k(Val("comp", text, ret_ty, outs=outs), env)


def simplify_ir(ir):
    """`m >>= fun x => pure x` is `m` (also `m >>= fun _ => pure ()` for `m : M Unit`: every `_` binder made here binds
    a `()`)"""
    k = ir[0]
    if k == "bind":
        c, rest = simplify_ir(ir[1]), simplify_ir(ir[3])
        if rest[0] == "ret" and (rest[1] == ir[2] or (ir[2] == "_" and rest[1] == "()")):
            return c
        return ("bind", c, ir[2], rest)
    if k == "ite":
        return ("ite", ir[1], simplify_ir(ir[2]), simplify_ir(ir[3]))
    if k == "match":
        return ("match", ir[1], [(p, simplify_ir(a)) for p, a in ir[2]])
    if k == "let":
        return ("let", ir[1], ir[2], simplify_ir(ir[3]))
    return ir


def norm(t):
    t = t.replace(" ", "")
    while True:
        u = re.sub(r"\(\(([^()]*)\)\)", r"(\1)", t)
        u = re.sub(r"\((\w+)\)", r"\1", u)
        if u == t:
            break
        t = u
    if t.startswith("M(") and t.endswith(")"):
        t = "M" + t[2:-1]
    return t


def lean_str(s):
    return '"' + s.replace("\\", "\\\\").replace('"', '\\"') + '"'


# ----------------------------------------------------------------------------------------------------------------
# Rendering
# ----------------------------------------------------------------------------------------------------------------

def render_ir(ir, ind, pure):
    k = ir[0]
    pad = " " * ind
    if k == "ret":
        return ir[1] if pure else f"pure {atom(ir[1])}"
    if k == "comp":
        return ir[1]
    if k == "bind":
        c = ir[1]
        ctext = c[1] if c[0] == "comp" else "(" + render_ir(c, ind + 1, False) + ")"
        return f"{ctext} >>= fun {ir[2]} =>\n{pad}{render_ir(ir[3], ind, False)}"
    if k == "let":
        return f"let {ir[1]} := {ir[2]};\n{pad}{render_ir(ir[3], ind, pure)}"
    if k == "ite":
        a = render_ir(ir[2], ind + 2, pure)
        b = render_ir(ir[3], ind + 2, pure)
        return f"if {ir[1]}\n{pad}then ({a})\n{pad}else ({b})"
    if k == "match":
        arms = "".join(f"\n{pad}| {p} => ({render_ir(a, ind + 4, pure)})" for p, a in ir[2])
        return f"match {ir[1]} with{arms}"
    raise AssertionError(k)


LEAN_HEADER_WRAP = '''/-!
# Machine translation of the glue layer: the RAII wrappers and the `embedded-io` traits

Every definition below the prelude is produced by `tools/translate_wrap.py` (called from tools/extract.py) from the
text of filesystem/files.rs (`File`, `RawFile::to_file`, `impl embedded_io::{Read, Write, Seek} for File`),
filesystem/directory.rs (`Directory`, `RawDirectory::to_directory`), lib.rs (`Volume`, `RawVolume::to_volume`,
`impl embedded_io::Error for Error`) and volume_mgr.rs (`VolumeManager::open_volume`); nothing here is written by
hand.  `Props/C01GenIo.lean` and `Props/C08GenWrap.lean` prove the definitions equal to the hand-written
`Model/Wrap.lean`.

## How the text is read

* A wrapper (`File`, `Directory`, `Volume`: a struct made of one raw handle and `&VolumeManager`) IS its raw handle;
  a raw handle (`RawFile(Handle)`, `Handle(u32)`) is the number.  The manager reference is the state of the `M`
  monad and is not a parameter.
* A call of a method of the manager (`self.volume_mgr.read(..)`) is a call of its machine translation in
  `Gen/FunsMgr.lean` (with its `fuel`, when it has one: then the caller has a `fuel` parameter too, passed on
  unchanged), or in `Gen/FunsMgr2.lean` (tools/translate_mgr2.py: `find_directory_entry`, `make_dir_in_dir`).  A method
  of the manager that neither file contains WITH THE TYPE THE CALL NEEDS is an explicit PARAMETER of the definitions
  that reach it (`VolumeManager_iterate_dir : Nat → F → M Unit`: `Gen/FunsMgr2.lean` has `iterate_dir` and
  `iterate_dir_lfn` under another convention for the callback, the list of its calls); the parameter goes away by
  itself when a translation of that type exists.  A generic parameter bound by `ToShortFileName` is a name
  (`List Nat`, as in `Gen/FunsMgr.lean`); any other generic parameter (the callbacks `F: FnMut(..)`) and
  `LfnBuffer` are abstract types, passed through untouched (a `&mut LfnBuffer` comes back with the result, like a
  `&mut [u8]`).
* **Method calls are resolved as rustc resolves them**, not by name: the receiver's type and what it dereferences
  to are tried in turn; each by value, then behind `&`, then behind `&mut`; and for each of those the inherent
  methods with exactly that `self` type come before the methods of the traits in scope (the file's `use` lines, the
  traits it defines, the language prelude), provided methods of `embedded-io`'s traits included.  So inside
  `impl Read for File`, where `self : &mut File`, `self.read(buf)` is `<impl Read for File>::read` (found by value
  at the first step) and NOT the inherent `File::read(&self, ..)` (two steps later).  `File::read(self, buf)` and
  `Self::flush(self)` are paths: the inherent associated function comes first.
* A call that resolves to the function being translated, or to one whose translation is in progress, is rejected
  (`unbounded recursion: <impl Read for File>::read calls itself`): no definition is produced.
  (`python3 tools/translate_wrap.py --probe '&mut File' read filesystem/files.rs` prints the probing steps.)
* `Result<T, Error>` is the monad's error channel.  `call(..)?` binds; `call(..).expect(msg)` / `.unwrap()` is
  `expectOk msg (call ..)` (an `Err` becomes a panic; the text of `unwrap`'s message is the prefix
  ``called `Result::unwrap()` on an `Err` value``, the `Debug` rendering of the error is not modelled);
  `_ = call(..)` / `let _ = call(..)` / `call(..);` is `discardErr (call ..)`; `let r = call(..); ..; r` is
  `M.attempt (call ..) >>= fun r => .. M.lift r`, as in `Gen/FunsMgr.lean`.
* **Destructors.**  A binding (`self` taken by value, a parameter, a `let`) whose type implements `Drop` and that
  has not been moved when the function ends gets `<impl Drop for T>::drop` called there, latest declared first,
  after the function's value has been computed.  `core::mem::forget(x)`, `Ok(x)`, a struct literal, an argument
  passed by value, a method taking `self` by value are moves.  (`?` while such a binding is owned is rejected.)
* `&mut [u8]` parameters come back after the value (`M (Nat × List UInt8)`), as in `Gen/FunsMgr.lean`; a `&mut self`
  method that assigns its handle returns the new handle (after the value; instead of it when the value is `()`).
* Integers: `u*` / `usize` are `Nat`, `i*` are `Int`.  `x.try_into()` (target type taken from where the value
  goes) is `if lo ≤ x ∧ x ≤ hi then some .. else none` with the bounds of the target that the source type can
  violate; `checked_neg` is `none` exactly at the minimum; `checked_add` / `checked_sub` are `none` exactly outside
  the type's range; `i64::from(x)` / `x.into()` are accepted only when every value of the source type is a value
  of the target type; `x as T` wraps (`%`) when it can.  `opt.ok_or(e)?` and `conv.map_err(|_| e)?` are
  `ofOption e ..`.
* A `match` / `if` in statement position is a computation of `()` (its arms may fail, not assign or move) followed by
  the rest; in the position of the function's value the branches are the function's branches.

## Trusted base added by this file (hand-written tables in translate_wrap.py)

* the representation of the types: wrappers and raw handles as above; `DirEntry`, `Mode`, `Error` are the
  model's `DirEntry`, `Mode`, `Err` (`Error::DeviceError(E)` without its payload), as in `Gen/FunsMgr.lean`;
* `embedded_io` 0.6.1: `SeekFrom` and `ErrorKind` below are copies of its enums; the table of the methods of
  `Read` / `BufRead` / `Write` / `Seek` / `ErrorType` / `Error` with their `self` kinds (they take part in method
  resolution) and the crate a `use` must name them through to bring them into scope (`use crate::Error`, the enum,
  does not bring `embedded_io::Error`, the trait); `core`: `Drop::drop(&mut self)`, `Debug::fmt(&self, ..)`, the language prelude's traits;
* the prelude: `expectOk`, `discardErr`, `ofOption`;
* the names of the definitions of `Gen/FunsMgr.lean` (`VolumeManager_<method>`; their parameter and result
  types are CHECKED against the Rust signature, a mismatch stops the generation).
-/
'''

PRELUDE_WRAP = '''/-- `embedded_io::SeekFrom`. -/
inductive SeekFrom
  | Start (offset : Nat)
  | End (offset : Int)
  | Current (offset : Int)
  deriving Repr, DecidableEq

/-- `embedded_io::ErrorKind` (0.6.1). -/
inductive ErrorKind
  | {kinds}
  deriving Repr, DecidableEq

/-- `result.expect(msg)` / `result.unwrap()`: an `Err` becomes a panic. -/
def expectOk {{α : Type}} (msg : String) (m : M α) : M α := fun s =>
  match m s with
  | (.err _, s') => (.panic msg, s')
  | r => r

/-- `_ = result`: an `Err` is discarded. -/
def discardErr {{α : Type}} (m : M α) : M Unit := fun s =>
  match m s with
  | (.ok _, s') => (.ok (), s')
  | (.err _, s') => (.ok (), s')
  | (.panic msg, s') => (.panic msg, s')
  | (.diverged, s') => (.diverged, s')

/-- `opt.ok_or(e)?` / `conversion.map_err(|_| e)?`. -/
def ofOption {{α : Type}} (e : Err) : Option α → M α
  | some a => pure a
  | none => M.fail e
'''


def render_wrap(T):
    kinds = " | ".join(v for v, _ in EXT_ENUMS["ErrorKind"])
    lines = ["import Sdmmc.Gen.FunsMgr2\n" if T.uses_mgr2 else "import Sdmmc.Gen.FunsMgr\n", LEAN_HEADER_WRAP, "set_option linter.unusedVariables false\n",
             "namespace Sdmmc.Gen.FunsWrap\n", "open Sdmmc.Model\n", PRELUDE_WRAP.format(kinds=kinds)]
    for key in T.order:
        d = T.done[key]
        ps = ""
        if d.tvars:
            ps += " {" + " ".join(d.tvars) + " : Type}"
        if d.fuel:
            ps += " (fuel : Nat)"
        for n, t in d.ext:
            ps += f" ({n} : {t})"
        for n, t in d.params:
            ps += f" ({n} : {t})"
        rt = d.ret if d.pure else f"M {atom(d.ret)}"
        lines.append(f"/-- {d.doc}. -/\ndef {d.name}{ps} : {rt} :=\n  {render_ir(d.body, 2, d.pure)}\n")
    lines.append("end Sdmmc.Gen.FunsWrap\n")
    return "\n".join(lines)


def generate_wrap(read_src, targets=None, mgr_text=None, mgr2_text=None):
    if mgr_text is None:
        import translate_mgr
        mgr_text, _ = translate_mgr.generate_mgr(read_src)
    if mgr2_text is None:
        import translate_mgr2
        mgr2_text, _ = translate_mgr2.generate_mgr2(read_src, mgr_text=mgr_text)
    T = Wrap(read_src, mgr_text)
    T.mgr2_defs = T.read_mgr(mgr2_text)
    for ty, trait, name in (TARGETS if targets is None else targets):
        T.translate(T.find(ty, trait, name))
    text = render_wrap(T)
    summary = {T.done[k].name: {"from": T.done[k].doc, "pure": T.done[k].pure, "fuel": T.done[k].fuel,
                                "parameters": [e for e, _ in T.done[k].ext]} for k in T.order}
    return text, summary


def explain_probe(T, recv_text, name, file):
    """`--probe '<receiver type>' <method> <file>`: the probing steps, in rustc's order, and what each finds"""
    recv = T.conv(parse_type(lex(recv_text, "--probe"), "--probe", T.items), T._dummy_fn("?"))
    steps, u = [], recv
    while True:
        steps.append(u)
        if u[0] in ("ref", "refmut"):
            u = u[1]
        else:
            break
    lines = [f"receiver {show_ty(recv)}, method `{name}`, traits in scope in {file}: {sorted(T.scope[file])}"]
    found = None
    for u in steps:
        for adj, r in (("by value", u), ("autoref &", ("ref", u)), ("autoref &mut", ("refmut", u))):
            base = peel(r)
            hits = {"inherent": [], "trait": []}
            if base[0] == "adt":
                for im in T.impls:
                    if im.ty != base[1] or name not in im.fns:
                        continue
                    sk, _ = parse_params(im.fns[name].decl, T.items)
                    if sk is None or T.recv_type(("adt", im.ty), sk) != r:
                        continue
                    if im.trait is None:
                        hits["inherent"].append(im.fns[name].label())
                    elif im.trait in T.scope[file]:
                        hits["trait"].append(im.fns[name].label())
            mark = ""
            if found is None and (hits["inherent"] or hits["trait"]):
                found = (hits["inherent"] or hits["trait"])[0]
                mark = f"   <== resolves to {found}"
            lines.append(f"  candidate {show_ty(u):14} {adj:13} self type {show_ty(r):16} inherent {hits['inherent']} "
                         f"trait {hits['trait']}{mark}")
    return "\n".join(lines)


if __name__ == "__main__":
    root = os.environ.get("VERIF_REPO", "/repo")

    def read_src(rel):
        with open(os.path.join(root, "src", rel)) as f:
            return f.read()
    if len(sys.argv) == 5 and sys.argv[1] == "--probe":
        print(explain_probe(Wrap(read_src, ""), sys.argv[2], sys.argv[3], sys.argv[4]))
        sys.exit(0)
    try:
        text, _ = generate_wrap(read_src)
    except ShapeError as e:
        print(f"translate_wrap: {e}", file=sys.stderr)
        sys.exit(3)
    sys.stdout.write(text)
